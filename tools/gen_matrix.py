#!/usr/bin/env python3
"""gen_matrix.py: rewrites the seed -> catching rules table of DESIGN.md §9.4 (between the matrix markers) from
seeded/REPORT.json (what the last full `python3 tools_selftest.py` run observed) and seeded/*/meta.json."""
import json, os, re
V = '/verif'
rep = json.load(open(os.path.join(V, 'seeded', 'REPORT.json')))
by = {}
for pid, r in rep.items():
    for seed, rules in r.get('by_seed', {}).items():
        by.setdefault(seed, set()).update(rules)
rows = []
for d in sorted(os.listdir(os.path.join(V, 'seeded'))):
    mp = os.path.join(V, 'seeded', d, 'meta.json')
    if not os.path.exists(mp) or d.startswith('refactor-') or d.startswith('finding-'):
        continue
    m = json.load(open(mp))
    if m.get('retired'):
        rows.append('| `%s` | retired: %s |' % (d, m['retired'].split(';')[0].split(':')[0][:90]))
        continue
    rules = sorted(by.get(d, ()))
    if rules:
        # the property's own rules first
        own = [r for r in rules if r.startswith(m.get('property', '?'))]
        rows.append('| `%s` | %s |' % (d, ', '.join(own + [r for r in rules if r not in own])))
    elif m.get('floor_only'):
        rows.append('| `%s` | reported through a rule floor only (BROKEN-CHECK: the rule no longer sees the code it was written for) |' % d)
    elif m.get('missed') or m.get('status', '').startswith('superseded'):
        rows.append('| `%s` | **missed** |' % d)
    else:
        rows.append('| `%s` | **not detected in the last run** |' % d)
neg = sorted(d for d in os.listdir(os.path.join(V, 'seeded')) if d.startswith('refactor-'))
rows.append('| %d negatives `%s … %s` | nothing (expected: silent on all 17 checks) |' % (len(neg), neg[0], neg[-1]))
txt = '| seed | caught by |\n|---|---|\n' + '\n'.join(rows) + '\n'
p = os.path.join(V, 'DESIGN.md')
s = open(p).read()
a, b = '<!-- matrix:begin -->\n', '<!-- matrix:end -->\n'
i, j = s.index(a) + len(a), s.index(b)
open(p, 'w').write(s[:i] + txt + s[j:])
print('matrix rows:', len(rows))
