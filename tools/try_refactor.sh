#!/bin/bash
# try_refactor.sh <patch.diff>: a behaviour-preserving change must leave every check silent
ALL="C01 C02 C03 C04 C06 C07 C08 C09 C10 C11 C12 C13 C14 C15 C16 C17 C18"
/verif/tools/try_patch.py "$1" $ALL | grep -E "^--- C|^  key=|BROKEN|FAILED" | grep -v "exit=0" 
