#!/usr/bin/env python3
"""(re)generates tables/c08_reviewed.tsv: for every site the automatic rules cannot discharge, a reviewed
entry  key <TAB> required-guard (or -) <TAB> reason.  Patterns below were written by reading each site;
a site matching no pattern is NOT entered (it stays a violation until fixed, reviewed or listed)."""
import sys, os, re
sys.path.insert(0, os.path.dirname(os.path.dirname(os.path.abspath(__file__))))
from xehlint import framework as fw, core
from xehlint.rules import c08

I_BITSTR = 'I-BITSTR (range.start <= range.end <= 8*data.len(): range is private to bitstr.rs and every writer is bounds-checked or builds range from the buffer it creates)'
I_STACK = 'I-STACK (data_stack.len() >= ctx.ds_len: ds_len is set from len()/an enclosing ds_len in context_open, every shrink is floored by ds_len or restores a mark)'
I_FLOOR = 'context floor invariant (len() >= the ctx mark taken at context_open; shrinks are floored by the mark; build_abort truncates to marks of the restored context)'
I_CHAR = 'I-CHAR (pos/start_pos are char boundaries <= buf.len(): C16.R2 shows pos advances only by len_utf8 of the char peeked at pos)'
RULES = [
  # (fn regex, kind regex, sig regex, needs, reason)
  (r"bitstr::Bits<'a> as .*::next", r'BoundsCheck', r'', 'Lt((*arg1).pos', 'pos < range.end <= 8*data.len() so pos/8 < data.len(): ' + I_BITSTR),
  (r"bitstr::Iter8<'a> as .*::next", r'BoundsCheck', r'Add\(Div', 'Lt(bitstr::cut_bits', 'second byte is read only when the first yielded fewer bits than requested (n < len), i.e. start+len crosses into byte idx+1 which lies below range.end: ' + I_BITSTR),
  (r"bitstr::Iter8<'a> as .*::next", r'BoundsCheck', r'', 'Lt((*arg1).pos', 'start < end <= 8*data.len(): ' + I_BITSTR),
  (r"bitstr::Iter8<'a> as .*::next", r'Overflow\(Shl\)', r'', 'Lt(bitstr::cut_bits', 'val: u8 shifted by n2 = bits taken from the next byte, n2 = len - n <= 7 because n >= 1 (cut_bits returns at least one bit when start < end)'),
  (r'cell::Cell as core::fmt::Debug>::fmt', r'call:str-index', r'RangeTo', 'call str::<impl str>::char_indices', 'cut is the last index yielded by s.char_indices() that is <= STR_ELIDE_LEN, or 0: a char boundary of s, <= s.len()'),
  (r'cell::Cell as core::fmt::Debug>::fmt', r'Overflow\(Shl\)', r'', '-', '1 << i with i in (0..n).rev() and n <= 8 (bit count of an iter8 item, reduced by 4 above): i <= 7 on an i32 literal'),
  (r'cell::Cell as core::fmt::Debug>::fmt', r'Overflow\(Shr\)', r'', 'Gt(', 'x >> n after `if n > 4 { n -= 4 }`: n <= 4 (iter8 item widths are <= 8)'),
  (r'error::Xerr as core::fmt::Display>::fmt', r'.*', r'MatchErr', '-', 'MatchError is built only by word_magic with fail_pos = position() of the first differing bit (or 0), which is < src.len(): split_at(fail_pos) is Some and start+fail_pos < end'),
  (r'lex::TokenLocation as core::fmt::Debug>::fmt', r'Overflow\(Add\)', r'', '-', 'line/col are character counts of a source held in memory (< 2^56), +1 for display'),
  (r'lex::XstrLines as .*::next', r'call:str-index', r'', 'Lt((*arg1).pos', 'pos < buf.len() here and pos is 0 or one past a newline found by char_indices: a char boundary; end = start + i from the same char_indices walk'),
  (r'arith::core_word_random|bitstr_ext::random_bits', r'call:unwrap', r'getrandom', '-', 'getrandom failure is an environment fault; the words random / random-bits are excluded as external by the properties (assumption listed in evidence)'),
  (r'bitstr::Bitstr::append_bits_mut', r'Overflow\(Sub\)|call:index:index_mut', r'upper_bound_index\(arg1\.range\.end\),1', 'Gt(Rem(arg1.range.end, 8), 0)', 'end % 8 > 0 implies end >= 1 so upper_bound_index(end) >= 1, and the buffer was just truncated to exactly that many bytes (it held at least that many by ' + I_BITSTR + ')'),
  (r'bitstr::Bitstr::append_bits_mut', r'call:index:index_mut', r'Div\(phi', 'call Vec::<T, A>::resize_with || call Vec::<T, A>::resize', 'data was resized to upper_bound_index(end + tail.len()) and pos runs from end over tail.len() bits: pos/8 < new_len'),
  (r'bitstr::Bitstr::append_bits_mut', r'call:unwrap', r'slice', 'Call:bitstr::Bitstr::is_u8_slice(arg2)=True', 'slice() is Some exactly when is_u8_slice() (same two tests)'),
  (r'bitstr::Bitstr::detach::\{closure#0\}', r'.*', r'', '-', 'closure maps iter8 items (val, n) whose n = min(end-start, 8) is in 1..=8: 8 - n is in 0..=7'),
  (r'bitstr::Bitstr::from_hex_str', r'call:index:index_mut', r'', 'Ne(Vec::<T, A>::len', 'n grows by 4 per digit and a byte is pushed whenever buf.len() == n/8, so in the else branch buf.len() == n/8 + 1'),
  (r'bitstr::Bitstr::from_int', r'.*', r'', '-', 'loop arithmetic on the bit counter: n = min(remaining, 8) with remaining >= 1 inside the loop, so n in 1..=8, i -= n stays >= 0, i += n stays <= num_bits, and 8 - n in 0..=7 shifts a u8'),
  (r'bitstr::Bitstr::invert', r'call:index:index_mut', r'', '-', 'pos ranges over bits_range() = start..end and detach() returned a buffer covering the value: pos/8 < data.len() by ' + I_BITSTR),
  (r'bitstr::Bitstr::(is_bytestr|len)$', r'Overflow\(Sub\)', r'range\.end,\(\*arg1\)\.range\.start', '-', I_BITSTR),
  (r'bitstr::Bitstr::(slice|to_uint)$', r'call:index:index', r'bytes_range', '-', 'bytes_range() = start/8 .. upper_bound_index(end) with start <= end <= 8*data.len(): a valid sub-range of data by ' + I_BITSTR),
  (r'bitstr::Bitstr::to_hex_string', r'call:unwrap', r'from_digit\(Shr', 'Gt(', 'val is a u8 widened to u32: val >> 4 <= 15 < 16'),
  (r'bitstr::Bitstr::to_int', r'Overflow\(Sub\)|Overflow\(Shl\)', r'', 'Ne(cast(bitstr::Bitstr::len(&(*arg1))), 0)', 'len != 0 on this path; callers bound len <= 128 (read_signed rejects longer), so len-1 <= 127 shifts a u128'),
  (r'bitstr::Bitstr::to_int', r'OverflowNeg', r'', 'Ne(cast(bitstr::Bitstr::len(&(*arg1))), 128)', 'len != 128 here, so (!val & mask) + 1 <= 2^(len-1) <= 2^126 is a positive i128 and its negation cannot overflow'),
  # operand-free (`*`), also for closures of to_uint (a fold over iter8): the argument is the callers' bound on len, re-checked by the predicate
  (r'bitstr::Bitstr::to_uint', r'Overflow\(Shl\)', r'\*', '@to_uint-callers-bound-len', '(val as u128) << (pos - start): pos - start < len and callers bound len <= 128 (read_unsigned rejects > 127 bits, read_signed > 128, to_int)'),
  (r'bitstr::Bitstr::to_uint', r'Overflow\(Add\)', r'\*', '@to_uint-callers-bound-len', 'the shift is the sum of the widths of the iter8 items consumed so far: at most len, which the callers bound by 128'),
  (r'bitstr::Bitstr::to_uint', r'Overflow\(Sub\)', r'', '-', 'pos starts at start() and only grows'),
  (r'bitstr::BitvecBuilder::append_bit', r'call:index:index_mut', r'', 'Ne(Vec::<T, A>::len', 'a byte is pushed whenever data.len() == len/8; in the else branch data.len() == len/8 + 1'),
  (r'bitstr::BitvecBuilder::append_bit', r'panic:panic', r'val<=1', '-', 'every caller passes a single bit: 0 / 1 literals, (x >> i) & 1, or op(a, b) of two bits under and/or/xor (lexer, from_bin_str, bitstring_zip_with)'),
  (r'bitstr::cut_bits', r'Overflow\(Sub\)', r'arg3,arg2', '-', 'contract start < end: Iter8::next returns None when start >= end and passes start+n < start+len for the second byte; to_uint walks bytes_range() with pos < end'),
  (r'bitstr::cut_bits', r'Overflow\(Sub\)', r'^8,', '-', 'len = min(end-start, 8-start_bit), so start_bit + len <= 8'),
  (r'bitstr_ext::(byte_to_dump_char|cstr_word)', r'call:unwrap', r'from_u32', '-', 'argument is a u8 widened to u32: every value below 0x100 is a Unicode scalar value'),
  (r'bitstr_ext::dump_bitstr_at', r'Overflow\(Mul\)', r'', '-', 'ncols is the constant 8 at both call sites (word_dump, word_dump_at): 16*8*8'),
  # operand-free entry (`*`): what is added to pos per row is written inline or counted by a row helper; the argument is the loop guard pos < end, which is re-checked
  (r'bitstr_ext::fmt_bitstr_dump', r'Overflow\(Add\)', r'\*', 'Lt(phi(', 'pos advances by the widths (<= 8 each) of the iter8 items of s and stays <= end = first + s.len(), where first + s.len() <= length of the input (the caller cut s out of it at first)'),
  (r'bitstr_ext::hex_to_bitstr', r'call:str-index', r'', '@hex-prefix-is-ascii', 'from_hex_str fails at char index k only after k characters that are hex digits or ASCII whitespace (one byte each): k is also the byte offset and a char boundary'),
  (r'bitstr_ext::nulbytestr_peek', r'Overflow\(Add\)', r'', '-', 'len sums the widths of the iter8 items of the rest of the input (<= its bit length); start + len <= end'),
  (r'bitstr_ext::nulbytestr_peek', r'call:unwrap', r'Bitstr::read', '-', 'len <= rest.len() (sum of its own item widths), so read(len) is Some'),
  (r'bitstr_ext::random_bits', r'call:unwrap', r'Bitstr::read', 'Gt(Rem(', 'the buffer has upper_bound_index(n) bytes >= n bits'),
  (r'bitstr_ext::word_close_bitstr', r'call:unwrap', r'drop_last', 'call Option::<T>::ok_or_else || call rpds::vector::Vector::<T, P>::last', 'last() was Some (the `?` above returned otherwise), so the vector is non-empty and drop_last() is Some'),
  (r'bitstr_ext::word_find', r'Overflow\((Add|Mul)\)', r'', '-', 'pos is a byte offset returned by memmem::find inside rest_bytes: pos*8 < rest.len() and start + pos*8 < end'),
  (r'bitstr_ext::write_dump_position|state::State::pretty_error', r'call:unwrap', r'write_fmt', '-', 'write! into a String cannot fail'),
  (r'file::fs_overlay::exec_piped', r'call:unwrap', r'', '-', 'the child was spawned with Stdio::piped() for stdin, so stdin.take() is Some'),
  (r'lex::token_location', r'.*', r'', '@line-bounds-are-boundaries', 'i and i + len_utf8 come from char_indices of the parent string: char boundaries within the buffer; start/end are taken from those'),
  (r'opcodes::RelativeJump::calculate', r'Overflow\(Add\)', r'', '-', 'ip < code.len() < 2^56 widened to isize plus an i32 offset'),
  (r'opcodes::RelativeJump::from_to', r'OverflowNeg', r'', 'Gt(arg1, arg2)', 'origin - dest is a distance between two code positions (< 2^56): positive isize, negation cannot overflow'),
  (r'state::State::backpatch$', r'call:index:index_mut', r'', '-', 'origins stored in pending flows / taken from code_origin() in the same word index instructions already emitted (C01.R2); build_abort truncates code and flows together (C10.R1)'),
  (r'state::State::backpatch_jump', r'panic:panic_fmt', r'', '-', 'D-VARIANT: every placeholder kind recorded in a flow that is patched through backpatch_jump is one it accepts (checked on every run by C01.R2 opcode-accepted)'),
  (r'state::State::build_abort', r'Overflow\(Add\)', r'', 'Gt(Vec::<T, A>::len(&(*arg1).nested), arg2.0)', 'depth < nested.len()'),
  (r'state::State::code_emit', r'panic:panic_fmt', r'', '?gt:Vec::<T, A>::len(&(*arg1).code):Vec::<T, A>::len(&(*arg1).debug_map)', 'code.len() <= debug_map.len() always: both grow together in code_emit and are truncated together (checked on every run by C17.R1)'),
  (r'state::State::context_close', r'call:index:index', r'flow_stack', '-', 'prev.fs_len is the flow mark of the enclosing context: ' + I_FLOOR),
  (r'state::State::(data_depth|over_data|rot_data|swap_data|reverse_changes)$', r'Overflow\(Sub\)', r'data_stack\),\(\*arg1\)\.ctx\.ds_len', '-', I_STACK),
  (r'state::State::fetch_and_run', r'call:index:index', r'\.code,state::State::ip', '-', 'run/next call fetch_and_run only while is_running() (ip < code.len()), the Resolve re-dispatch keeps ip; C15.R2 checks the guard on every run'),
  (r'state::State::has_pending_flow', r'panic:panic', r'', '-', I_FLOOR + ' for flow_stack / fs_len'),
  (r'state::State::top_function_flow|state::core_word_break', r'call:index', r'flow_stack', '-', I_FLOOR + ' for flow_stack / fs_len'),
  (r'state::core_word_display_stack', r'call:index', r'data_stack', '-', I_STACK),
  (r'state::(counter_value|foreach_next)', r'call:index', r'loops', '-', I_FLOOR + ' for loops / ls_len'),
  (r'state::foreach_next', r'call:unwrap', r'last_mut', 'call Option::<T>::ok_or_else', 'loops[ls_len..].last() was Some a few lines above (`?`), nothing popped since'),
  (r'state::build_let_(in|map|tags|vec)$', r'panic:panic', r'unreachable', '@next_nonws-filters', 'D-VARIANT: the token comes from next_token -> Lex::next_nonws, whose loop continues on Whitespace/Comment and returns only other tokens (C16.R1 loop rule sees that loop on every run)'),
  (r'state::build_let_vec$', r'Overflow\(Sub\)', r'', '-', 'idx -= 1 directly after build_let_vec_next, which either failed or incremented idx'),
  (r'state::build_let_vec_next', r'Overflow\(Add\)', r'', 'Ne(arg2, 18446744073709551615)', 'idx != usize::MAX on this path'),
  (r'state::core_word_collect', r'Overflow\(Sub\)', r'', 'Le(', 'n <= data_depth() = len - ds_len <= len on this path'),
  (r'state::core_word_const', r'call:index:index(_mut)?', r'', '-', 'pos was just returned by dict_pos (rposition over dict) and nothing removed an entry since'),
  (r'state::core_word_def_end', r'Overflow\(Sub\)', r'', '-', 'start is the origin of the Jump emitted by `:` and a Ret was just emitted: code_origin() >= start + 2'),
  (r'state::core_word_def_end', r'panic:begin_panic', r'', '@function-entries-stay-functions', 'the entry at the index kept in the pending flow was inserted as a Function by `:`; entries are appended, cut at the end or removed as a whole, and the only in-place change of an entry kind-for-kind (`const` over a constant)'),
  (r'state::core_word_nested_(end|inject)', r'panic:panic', r'loops', '-', 'debug_assert: run() finished the meta code before the next token is read and every counted loop pops its record on exit (C01.R4), so the loop stack is back at the context mark'),
  (r'state::map_collect_till_ptr', r'BoundsCheck', r'', 'Eq(Rem(', 'the slice length is even on this path, so every chunk of chunks(2) has exactly two elements'),
  (r'state::core_word_sort', r'call:sort', r'', 'call slice::<impl [T]>::windows', 'every adjacent pair was just checked to be comparable (partial_cmp is Some); comparability is an equivalence on {int, real (non-NaN), str}, so the order restricted to this vector is total'),
  (r'state::core_word_sort', r'BoundsCheck', r'', '-', 'w is an item of windows(2): a slice of exactly two elements'),
  (r'state::take_first_cond_flow', r'call:(index|remove)', r'', '-', 'i ranges over fs_len..flow_stack.len()'),
]

def main():
    p, th = fw.refresh_facts('dev')
    fx = core.Facts(p)
    reach = c08.scope(fx)
    tp = c08.compute_tainted_params(fx, reach)
    rows = {}
    unmatched = []
    for s in c08.enumerate_sites(fx, reach):
        f = fx.fns[s['fn']]
        res = c08.auto_discharge(fx, f, s, tp)
        if res is None and (s['kind'].startswith('call:') or s['kind'].startswith('panic:')):
            res = c08.discharge_call(fx, f, s, tp)
        if res is not None:
            continue
        sig = c08.sig_of(f, s['ops'])
        key = c08.site_key(s['fn'], s['kind'], sig)
        hit = None
        for (rf, rk, rs, needs, reason) in RULES:
            if rs == r'\*' and re.search(rf, s['fn']) and re.search(rk, s['kind']):
                key = c08.site_key(s['fn'], s['kind'], '*')
                hit = (needs, reason)
                break
            if re.search(rf, s['fn']) and re.search(rk, s['kind']) and re.search(rs, sig):
                hit = (needs, reason)
                break
        if hit:
            rows[key] = hit
        else:
            unmatched.append(key)
    # operand-free entries are standing entries: present whether or not today's form of the function needs them
    for (rf, rk, rs, needs, reason) in RULES:
        if rs == r'\*' and re.fullmatch(r'[\w:<>\' ]+', rf):
            for kind in re.sub(r'\\', '', rk).split('|'):
                rows.setdefault(c08.site_key(rf, kind, '*'), (needs, reason))
    out = os.path.join(fw.VERIF, 'tables', 'c08_reviewed.tsv')
    with open(out, 'w') as fh:
        fh.write('# C08 reviewed discharges: site key <TAB> guard text that must dominate the site (or -) <TAB> one-line argument\n')
        fh.write('# generated by tools/gen_c08_table.py from hand-written patterns; a site whose required guard disappears becomes a violation again\n')
        for k in sorted(rows):
            fh.write('%s\t%s\t%s\n' % (k, rows[k][0], rows[k][1]))
    print('reviewed entries:', len(rows))
    print('NOT covered (stay violations):')
    for k in sorted(set(unmatched)):
        print('  ', k[:200])

main()
