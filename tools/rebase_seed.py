#!/usr/bin/env python3
"""rebase_seed.py <seed dir name>...  - bring a stale seeded patch forward to /repo's HEAD.

A repo fix that touches the same lines makes a stored patch stop applying.  For each named seed: find the newest commit of
/repo the patch still applies to, commit it there on a detached scratch worktree, cherry-pick that commit onto HEAD (git's
3-way merge), and write the resulting diff back as patch.diff (the old one is kept as patch.orig.diff the first time).
Conflicts are left for the hand: the seed is reported and the scratch worktree is reset.  The worktree lives under /tmp
and is removed at the end."""
import os, subprocess, sys

REPO = '/repo'
WT = '/tmp/wt-rebase'


def sh(cmd, cwd=None, ok=(0,)):
    p = subprocess.run(cmd, cwd=cwd, stdout=subprocess.PIPE, stderr=subprocess.STDOUT, text=True)
    return p.returncode, p.stdout


def main():
    seeds = sys.argv[1:]
    head = sh(['git', '-C', REPO, 'rev-parse', 'HEAD'])[1].strip()
    revs = sh(['git', '-C', REPO, 'rev-list', 'HEAD'])[1].split()
    sh(['git', '-C', REPO, 'worktree', 'remove', '--force', WT])
    subprocess.run(['rm', '-rf', WT])
    rc, out = sh(['git', '-C', REPO, 'worktree', 'add', '--detach', WT, head])
    assert rc == 0, out
    res = {}
    for s in seeds:
        d = os.path.join('/verif/seeded', s)
        patch = os.path.join(d, 'patch.diff')
        if sh(['git', 'apply', '--check', patch], cwd=WT)[0] == 0:
            res[s] = 'applies'
            continue
        base = None
        for r in revs:
            sh(['git', 'checkout', '-q', '-f', r], cwd=WT)
            if sh(['git', 'apply', '--check', patch], cwd=WT)[0] == 0:
                base = r
                break
        if base is None:
            res[s] = 'NO-BASE'
            sh(['git', 'checkout', '-q', '-f', head], cwd=WT)
            continue
        sh(['git', 'apply', patch], cwd=WT)
        sh(['git', 'add', '-A'], cwd=WT)
        sh(['git', '-c', 'user.name=x', '-c', 'user.email=x@x', 'commit', '-q', '-m', 'seed ' + s], cwd=WT)
        c = sh(['git', 'rev-parse', 'HEAD'], cwd=WT)[1].strip()
        sh(['git', 'checkout', '-q', '-f', head], cwd=WT)
        rc, out = sh(['git', '-c', 'user.name=x', '-c', 'user.email=x@x', 'cherry-pick', '-X', 'patience', c], cwd=WT)
        if rc != 0:
            conf = sh(['git', 'diff', '--name-only', '--diff-filter=U'], cwd=WT)[1].split()
            res[s] = 'CONFLICT base=%s files=%s' % (base[:7], conf)
            sh(['git', 'cherry-pick', '--abort'], cwd=WT)
            sh(['git', 'checkout', '-q', '-f', head], cwd=WT)
            continue
        new = sh(['git', 'diff', head, 'HEAD'], cwd=WT)[1]
        orig = os.path.join(d, 'patch.orig.diff')
        if not os.path.exists(orig):
            os.rename(patch, orig)
        open(patch, 'w').write(new)
        res[s] = 'rebased from %s' % base[:7]
        sh(['git', 'checkout', '-q', '-f', head], cwd=WT)
    sh(['git', '-C', REPO, 'worktree', 'remove', '--force', WT])
    subprocess.run(['rm', '-rf', WT])
    for s in seeds:
        print('%-55s %s' % (s, res[s]))


if __name__ == '__main__':
    main()
