#!/bin/bash
# rb.sh start <seed> | done <seed>  - manual rebase of one stale seed in /tmp/wt-rebase (see rebase_seed.py)
set -e
WT=/tmp/wt-rebase; S=/verif/seeded/$2; HEAD=$(git -C /repo rev-parse HEAD)
case $1 in
start)
  [ -d $WT ] || git -C /repo worktree add --detach $WT $HEAD -q
  cd $WT; git cherry-pick --abort 2>/dev/null || true; git checkout -q -f $HEAD
  P=$S/patch.diff   # the latest rebased form; patch.orig.diff is only the historical original
  for r in $(git -C /repo rev-list HEAD); do git checkout -q -f $r; if git apply --check $P 2>/dev/null; then base=$r; break; fi; done
  [ -n "$base" ] || { echo NO-BASE; exit 1; }
  git apply $P; git add -A; git -c user.name=x -c user.email=x@x commit -qm "seed $2"; c=$(git rev-parse HEAD)
  git checkout -q -f $HEAD
  git -c user.name=x -c user.email=x@x cherry-pick $c >/dev/null 2>&1 && echo "CLEAN" || { echo "base=$base"; git diff --diff-filter=U | grep -v "^index" ; }
  ;;
done)
  cd $WT
  if grep -n "^<<<<<<<\|^>>>>>>>\|^=======" $(git diff --name-only --diff-filter=U) 2>/dev/null; then echo "markers left"; exit 1; fi
  git add -A; git -c user.name=x -c user.email=x@x -c core.editor=true cherry-pick --continue >/dev/null 2>&1 || true
  CARGO_NET_OFFLINE=true CARGO_TARGET_DIR=/tmp/rb-target cargo test --offline --lib 2>&1 | grep -E "^error|test result" -A7 | head -20
  [ -f $S/patch.orig.diff ] || cp $S/patch.diff $S/patch.orig.diff
  git diff $HEAD HEAD > $S/patch.diff; git checkout -q -f $HEAD; wc -l $S/patch.diff
  ;;
esac
