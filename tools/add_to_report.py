#!/usr/bin/env python3
"""add_to_report.py <seed> <ID> <rule,rule|MISSED> : records in seeded/REPORT.json what a single
`tools/try_patch.py <seed>/patch.diff <ID>` run observed for a seed added after the last full
`python3 tools_selftest.py` replay (the next full replay overwrites the entry with its own observation)."""
import json, sys
seed, pid, rules = sys.argv[1:4]
p = '/verif/seeded/REPORT.json'
rep = json.load(open(p))
r = rep[pid]
rl = [] if rules == 'MISSED' else sorted(rules.split(','))
r.setdefault('by_seed', {})[seed] = rl
lst = 'detected' if rl else 'silent_expected'
if seed not in r.setdefault(lst, []):
    r[lst] = sorted(r[lst] + [seed])
r['seeds'] = len(r['by_seed'])
json.dump(rep, open(p, 'w'), indent=1)
print('recorded', seed, pid, rl)
