#!/bin/bash
# dbg_scratch.sh <patch.diff>: (re)create /tmp/dbg-repo = /repo + patch, for interactive rule debugging
# use with: XEH_REPO=/tmp/dbg-repo XEH_SCRATCH=1 ./check <ID>;  remove with: rm -rf /tmp/dbg-repo
rm -rf /tmp/dbg-repo; rsync -a --exclude target --exclude .git /repo/ /tmp/dbg-repo/
[ -n "$1" ] && patch -p1 -s -d /tmp/dbg-repo -i "$(realpath $1)"
