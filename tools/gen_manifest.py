#!/usr/bin/env python3
"""regenerates /verif/MANIFEST.json from the table below (one entry per claimed
property; everything else goes to not_applicable with its reason)."""
import json, os
V = os.path.dirname(os.path.dirname(os.path.abspath(__file__)))
props = [json.loads(l) for l in open(os.path.join(V, 'properties.jsonl'))]

TB = ("trusted base: rustc's MIR construction and Instance resolution for the real build (nightly 1.97, "
      "mir-opt-level 0, overflow checks on), the fact extractor /verif/driver, std/rpds/arcstr behaving as documented")

# sentences added after the audit rounds (rules written for defects found on the unchanged tree)
EXTRA = {
 'C13': " Also: every Cell switch in a function of the C API looks through tags; remove-tag never leaves an empty wrapper; a stored constant keeps its tags.",
 'C18': " R3 also: a library decoder more lenient than its alphabet sees the text only behind a test that admits canonical text only (re-encode and compare, or exact group sizes).",
 'C03': " R6 also: a 'static view is made only of memory leaked for good (never of a mapping that a drop can unmap); R7: no result depends on a reference count or on the identity of mutable storage.",
 'C01': " R5 also: what InitLocal appends is slot i itself (gaps left by a `local` that did not execute are filled first).",
 'C02': " R3 also: the build-time steps of a meta block leave no entries on the reverse log (the log is cut back to the mark taken when the block opened). R4 also: run, next and the halt close a group that the host or a failed instruction left open on the log before they record a new step, so rnext undoes one step at a time.",
 'C04': " R4: no public method takes a position inside the backing buffer - a range bound computed from a position argument adds range.start (seek, substr like read, peek, split_at); R3 also: slice() returning None is an error, never a fallback to raw bytes.",
 'C06': " The cursor counts bits of the value: the move is bounded by input.len(), open-bitstr starts at the constant 0 (decided from the constant's initialiser), and a read advances the current offset by len() of the peeked slice with an overflow check.",
 'C10': " Also: heap cells allocated while a source is built are a rolled-back resource; program code runs at build time only in a sealed meta context or after the source was accepted (user-defined immediate words are a listed known finding); a halted program's run-time stacks are dropped; a roll-back bound taken from the entry mark is the mark itself. The step function patches an instruction for good only when no source is being read; a State field that no roll-back restores is written after the word's last fallible step.",
 'C11': " Also: the floor of a meta context is the current depth (nested blocks inheriting the outer floor is a listed known finding, pinned by an existing test); nothing permutes the dictionary, so the purge keeps the order of surviving constants; an instruction that patches itself at run time (the `late` stub) does so for good only outside meta evaluation. A block nested in another emits only what it left itself. Late binding refuses a build-time (immediate) word before it picks an instruction, so build-time words are run by the builder only.",
 'C15': " Also: a user-defined immediate word returns to the end of the code, not into the half-built program, and the builder's ip is restored afterwards. A failed run under eval is left stopped at the failing instruction and continuable, as compile + run leaves it; a context never starts at the ip of the enclosing one (which is the instruction in flight when a host word calls eval).",
 'C16': " R3 (necessary conditions of print/read-back visible in the code): radix formats are applied to an unsigned magnitude; every radix the printer emits for integers has a literal form in the lexer; the collected digits reach from_str_radix only behind a test of that text (it accepts a sign of its own).",
 'C17': " Also: the source a token belongs to is found by identity of its buffer, not by comparing source texts. A buffer is registered once; the cut of the source registry at the close of a meta block spares every buffer a pending input is still reading; every drive function forgets the previous failure before its first step; line and column are plain character counts.",
}

CLAIMS = {
 'C08': dict(
   technique="panic-site enumeration over MIR (Assert terminators + precondition-carrying std calls + explicit panics) with discharge by constants, a difference-bound (zone) domain over dominating guards, type/definition bounds, length provenance, and a reviewed invariant table whose required guards are re-checked; user-controlled operands tracked by inter-procedural taint",
   text=("Static, whole API surface: every panic-capable site reachable from the library's pub API and from every dictionary word (about 250 on the "
         "current tree) is enumerated from the overflow-checked MIR and must be discharged by D-CONST / D-ZONE / D-TYPE / D-LEN / D-INFALLIBLE or "
         "by a reviewed entry (about 100) carrying a one-line invariant argument and, where one exists, a guard pattern or structural predicate that "
         "is re-evaluated on every run; an operand derived from user integers is never discharged by the allocation-size assumption. A new "
         "unchecked arithmetic / index / unwrap on user data, or the removal of a guard a discharge rests on, is reported. Decides panic-"
         "freedom up to the soundness of those rules and the reviewed arguments; stack exhaustion, allocation failure and panics inside "
         "dependencies whose documented preconditions hold are outside. "
         "Site classes include run-time format widths (must fit u16). Further discharge rules: D-CURSOR (lexer slices bounded by earlier cursor values), D-POS (index found by position() over the same collection), D-CALLER (a helper or closure judged where it is used)."),
   ref='§3 C08'),
 'C11': dict(
   technique="MIR who-may-access analysis of data_stack/heap over the word registry with slice-bound provenance, control-dependence sets of the purge statements, who-may-call for run()",
   text=("Static, sealing gates only; equivalence of a meta block with its inlined value is translation validation and NOT decided (nested "
         "blocks inside builders/definitions deviate on the pinned tree - noted in DESIGN, outside the claimed clauses). Decided: every data "
         "stack access in any word is a length read, a floor-guarded primitive, or a slice that starts at a mark made inside the current "
         "context; every heap access in any word is behind `mode != MetaEval`; context_close purges code, debug map and non-constant "
         "dictionary entries under the MetaEval test and nothing else; run() is called only by the drive functions and, in the builder, only "
         "under a mode test (compile executes nothing). "
         "Also: the result emission of context_close reads the pending flows of the enclosing context only; const updates an entry of its own context in place."),
   ref='§3 C11'),
 'C01': dict(
   technique="MIR provenance of jump encodings and placeholder origins, flow-variant producer/consumer matching, arm-wise path analysis of the VM (custom extractor, Python rules)",
   text=("Static, structural necessary conditions; equivalence of compiled code with a reference semantics for all nestings is translation "
         "validation and NOT decided. Decided: the jump codec encodes the distance on every path (zero stays zero) and decodes by addition; "
         "every placeholder jump is recorded in a pending flow or patched in place, every origin-carrying flow has a patching consumer and "
         "patchable opcode kinds; every loop closer handles a pending Break and only the counted-loop closer builds Opcode::Break; in the VM, Do/"
         "Loop/Break/Call/Ret push/pop the loop/return stack exactly on the paths that warrant it and no other arm touches them. "
         "Also decided (R5 bindings): Opcode::InitLocal overwrites slot i when it exists and appends only otherwise; a variable definition allocates a fresh cell, enters it in the dictionary on every successful path and compiles that very cell."),
   ref='§3 C01'),
 'C04': dict(
   technique="ownership/who-may-call analysis of the single mutable buffer accessor + dominance of buffer normalisation over length-relative and accumulating writes (MIR)",
   text=("Static, two structural clauses; equality of results with a bit-sequence model (alignment arithmetic of cut_bits/Iter8/eq_with/"
         "invert/export) is value-level and NOT decided. R1 operands are never modified: the only mutable buffer access is data_mut = "
         "Rc::make_mut + Cow::to_mut, called only on receivers owned by value, unreachable from any &self method; the range of a borrowed "
         "value is written only by read. R2 storage history cannot leak: every append-at-len or `|=` write through data_mut is dominated by "
         "truncate(upper_bound_index(end)) and by a tail-bit mask guarded only by end % 8 > 0. "
         "R3 who reads raw bytes: the backing buffer is read only by the offset-aware primitives (bit iterator, iter8/cut_bits, to_uint) and by slice() behind both alignment tests."),
   ref='§3 C04'),
 'C12': dict(
   technique="variant-pair table extraction from nested discriminant switches (eq vs cmp agreement) + receiver provenance of rpds *_mut calls + builder/boundary shape rules",
   text=("Static, structural part: agreement with an association-list/sequence model is value-level and not decided. Decided: which variant "
         "pairs equal? compares vs which the map/sort ordering orders, and whether the ordering falls back to a constant Equal (violated on "
         "the pinned tree for keys of different types: a listed known finding, pinned by an existing test; the same-type pairs were repaired); every in-place rpds mutation has a function-local owned "
         "receiver (collections are values); literal builders insert in source order before popping; relative_index has the exact "
         "boundaries |i| > len / i >= len. "
         "Also: each type is ordered by its own PartialOrd/Ord (the order its == belongs to); index arguments are converted without wrapping; length and slice of a string use one unit (characters)."),
   ref='§3 C12'),
 'C09': dict(
   technique="inter-procedural operator-signature extraction per word (MIR binops, resolved std callees, reified fn items/closures) + dominance of zero tests + provenance of error payloads",
   text=("Static, structural part only: the numerical exactness of results is not decided. Decided for all 33 arith words: no bare/overflow-"
         "inheriting integer operator is applied to i128 operands (so the result is the wrapped value or an error in both build profiles); every "
         "division-family site is dominated by an exact `divisor == 0` test whose true side is DivisionByZero; every type error carries a value "
         "popped by the same word; the operator signature of each word (and the Ordering test of each comparison word, and that compare_cells "
         "compares the operands themselves) equals a reviewed table, so a word cannot apply a different total operator."),
   ref='§3 C09'),
 'C03': dict(
   technique="type-graph sharing inventory (rustc ADT facts) + who-may-call on alias-producing APIs + raw-pointer/unsafe/static inventory (custom extractor, Python rules)",
   text=("Static, aliasing argument: every pointer or cell through which a derived State::clone can share storage with the original is in a "
         "reviewed inventory; the only way to obtain a mutable view of a shared pointee is Bitstr::data_mut = Rc::make_mut(..).to_mut() (copies "
         "when shared); no raw pointers, no unsafe outside the reviewed sites, no static/thread-local state, nondeterminism only in the "
         "excluded words; REPL/C-API snapshots are direct clones. With rpds/arcstr/std as trusted base this is sufficient for isolation of "
         "clones except through host objects (Cell::AnyRc), whose five mutation sites in d2_plugin are listed known findings. 'Same results on "
         "re-run' follows for a deterministic interpreter; it is not measured."),
   ref='§3 C03'),
 'C17': dict(
   technique="MIR lock-step (paired-write) analysis of code/debug_map, fetch-path and error-exit path analysis, guard control-dependence (custom extractor, Python rules)",
   text=("Static: line/column arithmetic is value-level and not decided; the mechanism that makes the right token available is. Every function "
         "that changes the length of code applies the same change with the same bound to debug_map on the same paths; tokens are pulled from the "
         "lexer in one place and every fetch path records last_token; every Err of a step passes the location recorder while ip still points at "
         "the failing instruction; every Err of build1 passes the build mapper; both recorders write only when no location is recorded yet "
         "(innermost wins); the line/column scan is driven by a character iterator."),
   ref='§3 C17'),
 'C16': dict(
   technique="MIR natural-loop progress analysis (cycle-without-advance search) + who-may-write on Lex fields (custom extractor, Python rules)",
   text=("Static, all inputs: decides totality and tiling, not literal values. Lex.pos is written only by take_char (+len_utf8 of the char "
         "peeked at pos) and new; start_pos only at entry of next; last_substr is start_pos..pos - so tokens are adjacent, non-overlapping and on "
         "char boundaries. In each of the natural loops of lex.rs every cycle passes an advancing step that is guaranteed to have advanced "
         "(None leaves the loop / guarded by a successful peek), and every non-EndOfInput token of next lies behind a take_char that returned "
         "Some - a ranking-function argument for termination of every token stream. Not decided: numeric/escape/bit-string literal values, "
         "print/read round trips."),
   ref='§3 C16'),
 'C15': dict(
   technique="MIR control-dependence regions of is_recording() + effect scan; sibling-signature diff of run/next and eval/compile (custom extractor, Python rules)",
   text=("Static: equality of results across drive modes is value-level and not decided as such; its two mechanisms are. R1 every block "
         "control-dependent on either edge of an is_recording() branch, in every function of the crate, only logs/clones (no State write, no "
         "mutating call, no return), and reverse_log has exactly four accessor functions - so forward execution performs the same writes with "
         "recording on and off. R2 run and next call the same step under the same guard with the same error recorder (run merely loops); "
         "eval/compile are one build entry with a constant mode, and only context_open/close compare the mode with Eval/Compile."),
   ref='§3 C15'),
 'C07': dict(
   technique="registry/closure-constant table agreement + provenance of the emit updates (custom MIR extractor, Python rules)",
   text=("Thin, static: the pack->concatenate->parse round trip is value-level and not decided. Decided: all 60 (u|i|f)(8..64)(le|be)?(!)? words "
         "pass the width and Byteorder constant their name states to the reader/packer of their class, the name set is closed, the current-order "
         "wrappers and the generic int/uint/float(!) words forward width and current order; in emit the length added to output-length is len() of "
         "the very bit-string appended to output, the length update dominates the append and nothing else fallible sits between. Necessary "
         "conditions of the round trip only. Also: no error exit of a reader that scans the rest of the input depends on the shape of that rest alone (a field can be followed by any other)."),
   ref='§3 C07'),
 'C18': dict(
   technique="MIR sibling-agreement check with inter-procedural constant substitution + who-may-call + failure-path analysis (custom extractor, Python rules)",
   text=("Thin, static: the round trip of the data belongs to the base32/base64/z85 crates (trusted). Decided: each word pair X / X> reaches "
         "encode vs decode of the same crate with the same codec constant (alphabet variant and padding; base64 engine constant, read through "
         "the promoted constant); every encoder takes its bytes from into_bitstr (what >bitstr wraps) + bytestr with ToBytestrError for "
         "non-byte lengths and no other input path; every decoder turns the library failure value into push_data(NIL) and Ok. Not decided: "
         "byte-level equality, in particular the copying path of bytestr for unaligned inputs."),
   ref='§3 C18'),
 'C06': dict(
   technique="MIR who-may-write on heap cells via CellRef provenance + control-dependence + path ordering (custom rustc_private extractor, Python rules)",
   text=("Static, all parsing words x all paths: only move_offset_checked/open/close write the cursor cells and only commit_read/seek move the "
         "offset; the offset write is control-dependent on start<=pos<=end of the current input (so it always stays inside); commit_read tests the "
         "stack limit before moving and nothing fallible follows the move (a failing read leaves the cursor untouched); every peeking word ends "
         "every Ok path in commit_read with end = end of the peeked slice and a value computed from that slice (moves by exactly n); open/close "
         "pair old input+offset in one stash element, LIFO, with no half-open state. Not decided: that substr yields bits [offset,offset+n) "
         "(value-level, C04), remain/find arithmetic, huge arguments (C08)."),
   ref='§3 C06'),
 'C10': dict(
   technique="MIR acquire/release path analysis on all `?`/error exits + control-dependence (custom rustc_private extractor, Python rules)",
   text=("Static, all error exits: from the Ok edge of context_open in every build entry, every path to a return that can carry an Err passes a "
         "release function; every path of the release function either restores ctx from the saved context on `nested` and truncates input, "
         "pending flows, code, debug map and dictionary to the build-entry marks, or halts a built-but-failed program; context_close never drops "
         "a popped context; a halt write guarded only by the failed-run flag sits on the failing-run -> compile -> run protocol path and the flag "
         "is set on every failing step; the REPL snapshot update is control-dependent on the line succeeding. Does not decide that the marks "
         "make the interpreter observationally identical."),
   ref='§3 C10'),
 'C13': dict(
   technique="MIR scrutinee-provenance analysis over the decoded word registry + who-may-call rules (custom rustc_private extractor, Python rules)",
   text=("Static, all words x all argument positions: every discriminant switch on a Cell in a function reachable from any dictionary word is "
         "shown to look through Cell::value() or to be tag-aware (explicit WithTag arm); Cell::value strips the wrapper and with_tags never nests; "
         "the only producers of tagged values are the tag/fmt words, the binary readers and two internal sites; the only readers of tags are tag "
         "words, the printing path, the assert-message lookup and close-bitstr (str>number radix is a reviewed exception). Necessary for the "
         "property and sufficient for words that never see the wrapper; value-level equality of results is not decided."),
   ref='§3 C13'),
 'C02': dict(
   technique="MIR pairing analysis: who-may-write + inverse-arm matching + payload provenance (custom rustc_private extractor, Python rules)",
   text=("Static, all-paths: decides the mechanism 'every machine-state mutation logs its inverse'. For every function the VM can reach at "
         "run time (call graph + decoded word registry) every write to ip/data_stack/return_stack(+locals)/loops/special/heap is paired, under "
         "is_recording(), with add_reverse_step(V) whose reverse_changes arm performs the inverse kind of write on the same field and whose "
         "payload provably is the removed/overwritten value (R1/R2); every arm undoes with direct writes, no unbalanced or dead log variants (R3); "
         "every Ok path of fetch_and_run has exactly one ip write and nothing after it (R4). Does not decide value-level equality of restored "
         "states for all programs, nor replay determinism."),
   ref='§3 C02'),
 'C14': dict(
   technique="MIR who-may-write + dominator analysis (custom rustc_private fact extractor, Python rule library)",
   text=("Static, all-paths: decides the step case of the invariant 'stack <= S, heap <= H, executed instructions <= N'. "
         "R1 every growing write to data_stack/heap and every write to insn_meter in the whole crate is in the metered primitive; "
         "R2 the limit check dominates the growth and errs exactly on pre-growth size >= limit (operator and operands read from MIR); "
         "R3 fetch_and_run is the only XfnPtr/Opcode dispatcher reachable at run time and its meter check dominates the dispatch; "
         "R4 nothing is written before a check refuses. Not decided: limits lowered below the current size."),
   ref='§3 C14'),
}
PENDING = "check not built yet (framework under construction); planned rules in DESIGN.md §3"
NA = {
 'C05': ("every clause is a numerical identity over widths x byte orders x bit offsets x values; the known defect is a wrong shift amount "
         "inside a loop whose shape equals the correct big-endian one, and 'independent of start%8' is not structurally decidable; "
         "no code-shape necessary condition remains after the word-table agreement (claimed under C07) and panic sites (C08)"),
}

checks = []
na = []
for p in props:
    pid = p['id']
    if pid in CLAIMS:
        c = CLAIMS[pid]
        c = dict(c, text=c['text'] + EXTRA.get(pid, ''))
        checks.append({
            'property_id': pid,
            'quick_cmd': './check %s --tier quick' % pid,
            'thorough_cmd': './check %s --tier thorough' % pid,
            'evidence_file': '/verif/evidence/%s.json' % pid,
            'replay_cmd_template': './check %s --replay {path}' % pid,
            'engine': 'xehlint',
            'level_claimed': {'category': 'other', 'text': c['text'], 'design_ref': c['ref']},
            'level_note': TB,
            'technique': c['technique'],
        })
    else:
        na.append({'property_id': pid, 'reason': NA.get(pid, PENDING)})

m = {
 'version': 1,
 'setup_cmd': './setup.sh',
 'hooks': {'guard': 'xeh_verif', 'enable': 'none needed: the static checks read /repo as it is (no instrumentation, no hook commits)',
           'baseline_off_cmd': 'cd /repo && cargo test --workspace --no-fail-fast --offline', 'source_commits': [], 'add_only': True},
 'engines': [
   {'name': 'xeh-facts', 'path': '/verif/driver', 'serves_properties': sorted(CLAIMS),
    'kind_free_text': 'rustc_private RUSTC_WRAPPER that dumps type-resolved MIR facts (JSON) for the xeh lib+bin units of the real build'},
   {'name': 'xehlint', 'path': '/verif/xehlint', 'serves_properties': sorted(CLAIMS),
    'kind_free_text': 'Python rule library over the facts: CFG/dominators, provenance (def-use), who-may-write, path queries, call graph + word registry; one rule module per property'},
 ],
 'checks': checks,
 'notes': 'static analysis only; every check re-extracts facts from /repo working tree (content-hash cache); see DESIGN.md',
 'not_applicable': na,
}
json.dump(m, open(os.path.join(V, 'MANIFEST.json'), 'w'), indent=1)
print('claimed', [c['property_id'] for c in checks])
