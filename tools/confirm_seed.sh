#!/bin/bash
# confirm_seed.sh <dir with patch.diff + seed_demo.rs> : verify in a scratch worktree of /repo HEAD that
#  (1) with the patch the 144 lib tests pass and the demo fails, (2) without it the demo passes.
set -u
D=$(realpath "$1"); WT=/tmp/wt-confirm-$$
git -C /repo worktree add -q --detach $WT HEAD || exit 3
cd $WT
export CARGO_TARGET_DIR=/tmp/confirm-target CARGO_NET_OFFLINE=true
mkdir -p tests; cp $D/seed_demo.rs tests/seed_demo.rs
clean_demo=$(cargo test --offline --test seed_demo 2>&1 | grep -E "^test result" | tail -1)
if ! git apply $D/patch.diff 2>/dev/null; then patch -p1 -s < $D/patch.diff || { echo "PATCH DOES NOT APPLY"; cd /; git -C /repo worktree remove --force $WT; exit 3; }; fi
suite=$(cargo test --offline --lib 2>&1 | grep -E "^test result" | tail -1)
mut_demo=$(cargo test --offline --test seed_demo 2>&1 | grep -E "^test result" | tail -1)
echo "clean demo : $clean_demo"
echo "suite+patch: $suite"
echo "demo+patch : $mut_demo"
cd /; git -C /repo worktree remove --force $WT
