#!/usr/bin/env python3
"""keep_seed.py <src dir> <name> <property> <detected_by csv or 'MISSED'> <needs...>"""
import json, os, shutil, sys
src, name, prop, det = sys.argv[1:5]
needs = ' '.join(sys.argv[5:])
dst = os.path.join('/verif/seeded', name)
os.makedirs(dst, exist_ok=True)
for f in ('patch.diff', 'seed_demo.rs', 'notes.md'):
    if os.path.exists(os.path.join(src, f)):
        shutil.copy(os.path.join(src, f), os.path.join(dst, f))
meta = {'property': prop, 'origin': 'independent sub-agent given only the property text and a scratch worktree',
        'needs': needs,
        'ran': 'tools/confirm_seed.sh: clean checkout demo passes; with patch.diff the 144 lib tests pass and seed_demo.rs fails; '
               'tools/try_patch.py patch.diff %s' % prop,
        'detected_by': [] if det == 'MISSED' else det.split(','),
        'missed': det == 'MISSED'}
json.dump(meta, open(os.path.join(dst, 'meta.json'), 'w'), indent=1)
print('kept', dst)
