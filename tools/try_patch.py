#!/usr/bin/env python3
"""apply a patch (or a sed-like edit) to a scratch copy of /repo and run checks
against it.  usage: try_patch.py <patch.diff> <ID> [<ID>...]
The scratch copy lives under $TMPDIR and is removed afterwards; evidence goes
to /verif/out/scratch-evidence (never to /verif/evidence)."""
import os, shutil, subprocess, sys, tempfile

VERIF = os.path.dirname(os.path.dirname(os.path.abspath(__file__)))


def main():
    edits = []
    argv = sys.argv[1:]
    patch = None
    if argv[0] == '--edit':
        # --edit <file> <old> <new>  (exact, single occurrence)
        edits.append((argv[1], argv[2], argv[3]))
        ids = argv[4:]
    else:
        patch = os.path.abspath(argv[0])
        ids = argv[1:]
    tmp = tempfile.mkdtemp(prefix='xeh-mut-')
    repo = os.path.join(tmp, 'repo')
    try:
        subprocess.check_call(['rsync', '-a', '--exclude', 'target', '--exclude', '.git', '/repo/', repo + '/'])
        if patch:
            r = subprocess.run(['patch', '-p1', '-s', '-d', repo, '-i', patch])
            if r.returncode != 0:
                print('PATCH FAILED')
                return 3
        for (fn, old, new) in edits:
            pth = os.path.join(repo, fn)
            src = open(pth).read()
            if src.count(old) != 1:
                print('EDIT FAILED: %d occurrences' % src.count(old))
                return 3
            open(pth, 'w').write(src.replace(old, new))
        # a target directory of its own kind: never the one the checks on /repo use (two cargo runs deleting each other's fingerprints)
        env = dict(os.environ, XEH_REPO=repo, XEH_SCRATCH='1', XEH_TGT_SUFFIX=os.environ.get('XEH_TGT_SUFFIX', '-tp'))
        rc_all = {}
        for pid in ids:
            p = subprocess.run([os.path.join(VERIF, 'check'), pid], env=env, stdout=subprocess.PIPE, stderr=subprocess.STDOUT, text=True)
            out = p.stdout.replace(repo, '<scratch>')
            print('--- %s exit=%d' % (pid, p.returncode))
            print(out)
            rc_all[pid] = p.returncode
        return 0 if all(v == 1 for v in rc_all.values()) else 1
    finally:
        shutil.rmtree(tmp, ignore_errors=True)
        # drop the scratch facts + target dir
        import hashlib
        tag = hashlib.sha1(os.path.abspath(repo).encode()).hexdigest()[:8]
        for base in (os.path.join(VERIF, 'out', 'facts'),):
            if os.path.isdir(base):
                for d in os.listdir(base):
                    if d.endswith('-' + tag):
                        shutil.rmtree(os.path.join(base, d), ignore_errors=True)


if __name__ == '__main__':
    sys.exit(main())
