#!/usr/bin/env python3
"""(re)generates tables/anchors.json: the structural fingerprint of every crate function that a rule or table names,
taken from the current (reviewed) tree.  Run after a reviewed change of /repo that adds or reshapes a named function."""
import json, os, sys
sys.path.insert(0, os.path.dirname(os.path.dirname(os.path.abspath(__file__))))
from xehlint import framework as fw, inline, anchors

def main():
    out = {}
    for cfg in ('dev',):
        p, th = fw.refresh_facts(cfg)
        j = json.load(open(p))
        names = set(j['fns'])
        for n in sorted(inline.rule_vocabulary()):
            if n in j['fns'] and '{closure' not in n:
                out[n] = anchors.fingerprint(n, j['fns'][n], j['types'], names)
    json.dump(out, open(anchors.TABLE, 'w'), indent=0, sort_keys=True)
    print('anchors:', len(out))

main()
