"""interactive helper: `from tools.dbg import load; fx = load()` (uses $XEH_REPO, default /tmp/dbg-repo)"""
import os, sys
sys.path.insert(0, os.path.dirname(os.path.dirname(os.path.abspath(__file__))))
os.environ.setdefault('XEH_REPO', '/tmp/dbg-repo')
os.environ.setdefault('XEH_SCRATCH', '1')
from xehlint import framework, core


def load(cfg='dev'):
    path, th = framework.refresh_facts(cfg, os.environ['XEH_REPO'])
    return core.Facts(path)
