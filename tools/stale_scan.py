#!/usr/bin/env python3
"""stale_scan.py: which seeded patches no longer apply to /repo's HEAD (retired ones skipped)"""
import os, subprocess, json
wt = '/tmp/wt-chk'
subprocess.run(['git', '-C', '/repo', 'worktree', 'remove', '--force', wt], capture_output=True)
subprocess.run(['rm', '-rf', wt])
subprocess.run(['git', '-C', '/repo', 'worktree', 'add', '--detach', wt, 'HEAD', '-q'], check=True)
stale = []
for d in sorted(os.listdir('/verif/seeded')):
    p = '/verif/seeded/%s/patch.diff' % d
    m = '/verif/seeded/%s/meta.json' % d
    if not os.path.exists(p) or (os.path.exists(m) and json.load(open(m)).get('retired')):
        continue
    if subprocess.run(['patch', '-p1', '-s', '--dry-run', '-d', wt, '-i', p], capture_output=True).returncode != 0:
        stale.append(d)
subprocess.run(['git', '-C', '/repo', 'worktree', 'remove', '--force', wt])
subprocess.run(['rm', '-rf', wt])
print(len(stale), ' '.join(stale))
