#!/usr/bin/env python3
"""gen_rename_negatives.py: regenerates seeded/refactor-E-1 and E-2 (renames of the functions the rules name) against /repo HEAD.
Word-boundary replacement over src/ and benches/ in a scratch worktree, 144 lib tests run, diff written as patch.diff."""
import glob, os, re, subprocess
PAIRS = {
 'E-1': [('data_mut', 'buffer_mut'), ('move_offset_checked', 'seek_checked'), ('commit_read', 'finish_read'), ('build_abort', 'roll_back_build'),
         ('context_close', 'leave_context'), ('check_stack_limit', 'ensure_stack_room'), ('insn_meter_increase', 'charge_insn'),
         ('fetch_and_run', 'exec_one'), ('add_reverse_step', 'log_undo'), ('reverse_changes', 'undo_step'),
         ('take_first_cond_flow', 'take_pending_cond'), ('core_word_const', 'word_const'), ('relative_index', 'index_from_end')],
 'E-2': [('open_bitstr', 'open_input'), ('peek_bits', 'look_bits'), ('insert_tag', 'add_tag'), ('with_tags', 'tagged_with'), ('peek_char', 'look_char'),
         ('take_char', 'eat_char'), ('next_nonws', 'next_significant'), ('context_open', 'enter_context'), ('dict_insert', 'dict_add'),
         ('code_emit', 'emit_op'), ('backpatch_jump', 'patch_jump'), ('alloc_heap', 'new_heap_cell'), ('is_recording', 'recording'),
         ('set_ip', 'jump_to'), ('next_ip', 'advance_ip'), ('push_data', 'push_value'), ('pop_data', 'pop_value'), ('top_data', 'peek_value'),
         ('loop_next', 'advance_loop')],
}
WT = '/tmp/wt-rename'
subprocess.run(['git', '-C', '/repo', 'worktree', 'remove', '--force', WT], capture_output=True)
subprocess.run(['rm', '-rf', WT])
subprocess.run(['git', '-C', '/repo', 'worktree', 'add', '--detach', WT, 'HEAD', '-q'], check=True)
for n, ps in PAIRS.items():
    subprocess.run(['git', 'checkout', '-q', '-f', 'HEAD'], cwd=WT)
    for f in glob.glob(WT + '/src/**/*.rs', recursive=True) + glob.glob(WT + '/benches/*.rs'):
        s = open(f).read()
        o = s
        for a, b in ps:
            s = re.sub(r'\b%s\b' % a, b, s)
        if s != o:
            open(f, 'w').write(s)
    r = subprocess.run('CARGO_NET_OFFLINE=true CARGO_TARGET_DIR=/tmp/rb-target cargo test --offline --lib 2>&1 | grep -E "^error|test result" | head -3',
                       shell=True, cwd=WT, capture_output=True, text=True)
    print(n, r.stdout.strip())
    d = '/verif/seeded/refactor-%s' % n
    open(d + '/patch.diff', 'w').write(subprocess.run(['git', 'diff'], cwd=WT, capture_output=True, text=True).stdout)
subprocess.run(['git', '-C', '/repo', 'worktree', 'remove', '--force', WT])
subprocess.run(['rm', '-rf', WT, '/tmp/rb-target'])
