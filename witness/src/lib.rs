//! Compile-fail witnesses: encapsulation facts the who-may-write rules of /verif/xehlint rest on.
//! Each `compile_fail,E0xxx` block has a compiling twin that differs only by the offending line, so a
//! witness whose path is merely wrong cannot pass for the right reason.  Run with `cargo +nightly test --doc`
//! (stable ignores the error code).

/// Bitstr.data is private: no code outside xeh can reach the shared buffer (C03.R2 / C04.R1).
/// ```compile_fail,E0616
/// let b = xeh::bitstr::Bitstr::from(vec![1u8, 2]);
/// let _d = &b.data;
/// ```
/// twin:
/// ```
/// let b = xeh::bitstr::Bitstr::from(vec![1u8, 2]);
/// let _d = b.len();
/// ```
pub struct BitstrDataPrivate;

/// Bitstr.range is private (I-BITSTR maintenance, C08).
/// ```compile_fail,E0616
/// let mut b = xeh::bitstr::Bitstr::from(vec![1u8, 2]);
/// b.range = 0..999;
/// ```
/// twin:
/// ```
/// let mut b = xeh::bitstr::Bitstr::from(vec![1u8, 2]);
/// let _ = b.read(8);
/// ```
pub struct BitstrRangePrivate;

/// Bitstr::data_mut is private: the COW accessor cannot be called on a shared value from outside.
/// ```compile_fail,E0624
/// let mut b = xeh::bitstr::Bitstr::from(vec![1u8, 2]);
/// let _v = b.data_mut();
/// ```
/// twin:
/// ```
/// let b = xeh::bitstr::Bitstr::from(vec![1u8, 2]);
/// let _v = b.invert();
/// ```
pub struct BitstrDataMutPrivate;

/// State.data_stack is private: the stack floor / limit rules see every writer (C11.R1, C14.R1).
/// ```compile_fail,E0616
/// let mut xs = xeh::prelude::Xstate::boot().unwrap();
/// xs.data_stack.clear();
/// ```
/// twin:
/// ```
/// let mut xs = xeh::prelude::Xstate::boot().unwrap();
/// let _ = xs.pop_data();
/// ```
pub struct StateDataStackPrivate;

/// State.heap is private (C11.R2, C14.R1).
/// ```compile_fail,E0616
/// let xs = xeh::prelude::Xstate::boot().unwrap();
/// let _n = xs.heap.len();
/// ```
/// twin:
/// ```
/// let xs = xeh::prelude::Xstate::boot().unwrap();
/// let _n = xs.data_depth();
/// ```
pub struct StateHeapPrivate;

/// State.code / State.ctx are private (C02, C14.R3).
/// ```compile_fail,E0616
/// let xs = xeh::prelude::Xstate::boot().unwrap();
/// let _n = xs.code.len();
/// ```
/// ```compile_fail,E0616
/// let mut xs = xeh::prelude::Xstate::boot().unwrap();
/// xs.ctx.ip = 0;
/// ```
/// twin:
/// ```
/// let xs = xeh::prelude::Xstate::boot().unwrap();
/// let _n = xs.bytecode().len() + xs.ip();
/// ```
pub struct StateCodeCtxPrivate;

/// WithTag fields are private: only cell.rs looks at the wrapper (C13.R4).
/// ```compile_fail,E0616
/// fn peek(w: &xeh::cell::WithTag) -> usize { w.tags.size() }
/// ```
/// twin:
/// ```
/// fn peek(c: &xeh::cell::Cell) -> bool { c.tags().is_some() }
/// ```
pub struct WithTagPrivate;

/// Lex.pos is private: the cursor moves only through take_char (C16.R2).
/// ```compile_fail,E0616
/// let mut lx = xeh::lex::Lex::new("1 2".into());
/// lx.pos = 2;
/// ```
/// twin:
/// ```
/// let mut lx = xeh::lex::Lex::new("1 2".into());
/// let _ = lx.next();
/// ```
pub struct LexPosPrivate;

/// CellRef's index field is private: heap references cannot be forged from outside (C11.R2).
/// ```compile_fail,E0603
/// let _r = xeh::cell::CellRef(7);
/// ```
/// twin:
/// ```
/// let _r = xeh::cell::CellRef::default();
/// ```
pub struct CellRefPrivate;
