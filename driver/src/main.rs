// xeh-facts: rustc_private fact extractor used as RUSTC_WRAPPER.
//
// argv[1] is the real rustc (cargo's RUSTC_WRAPPER protocol). For every crate
// that is not the primary package we exec the real rustc unchanged (minus
// `--cfg proc_macro_span`, see DESIGN §2.4). For the primary package (xeh lib /
// bin, non-test units) we run the compiler through analysis and dump one JSON
// fact file per compilation unit into $XEH_FACTS_DIR.
#![feature(rustc_private)]
#![allow(clippy::all)]

extern crate rustc_abi;
extern crate rustc_driver;
extern crate rustc_hir;
extern crate rustc_interface;
extern crate rustc_middle;
extern crate rustc_session;
extern crate rustc_span;

use std::collections::BTreeMap;
use std::fmt::Write as _;
use std::os::unix::process::CommandExt;

use rustc_driver::Compilation;
use rustc_hir::def::DefKind;
use rustc_hir::def_id::DefId;
use rustc_middle::mir::{
    self, AggregateKind, AssertKind, BasicBlock, Body, CastKind, Const, Operand, Place,
    ProjectionElem, Rvalue, StatementKind, TerminatorKind,
};
use rustc_middle::ty::{self, Instance, Ty, TyCtxt, TypingEnv};
use rustc_span::Span;

// ------------------------------------------------------------------ JSON
#[derive(Clone)]
enum J {
    Null,
    B(bool),
    I(i128),
    S(String),
    A(Vec<J>),
    O(Vec<(String, J)>),
}

fn jesc(s: &str, out: &mut String) {
    out.push('"');
    for c in s.chars() {
        match c {
            '"' => out.push_str("\\\""),
            '\\' => out.push_str("\\\\"),
            '\n' => out.push_str("\\n"),
            '\r' => out.push_str("\\r"),
            '\t' => out.push_str("\\t"),
            c if (c as u32) < 0x20 => {
                let _ = write!(out, "\\u{:04x}", c as u32);
            }
            c => out.push(c),
        }
    }
    out.push('"');
}

impl J {
    fn write(&self, out: &mut String) {
        match self {
            J::Null => out.push_str("null"),
            J::B(b) => out.push_str(if *b { "true" } else { "false" }),
            J::I(i) => {
                // keep integers that JSON readers would mangle as strings
                if *i > (1i128 << 62) || *i < -(1i128 << 62) {
                    jesc(&i.to_string(), out)
                } else {
                    let _ = write!(out, "{}", i);
                }
            }
            J::S(s) => jesc(s, out),
            J::A(v) => {
                out.push('[');
                for (i, x) in v.iter().enumerate() {
                    if i > 0 {
                        out.push(',');
                    }
                    x.write(out);
                }
                out.push(']');
            }
            J::O(v) => {
                out.push('{');
                for (i, (k, x)) in v.iter().enumerate() {
                    if i > 0 {
                        out.push(',');
                    }
                    jesc(k, out);
                    out.push(':');
                    x.write(out);
                }
                out.push('}');
            }
        }
    }
}

fn s(x: impl Into<String>) -> J {
    J::S(x.into())
}
fn obj(v: Vec<(&str, J)>) -> J {
    J::O(v.into_iter().map(|(k, v)| (k.to_string(), v)).collect())
}

// ------------------------------------------------------------------ extractor

struct Ex<'tcx> {
    tcx: TyCtxt<'tcx>,
    types: Vec<String>,
    type_ix: BTreeMap<String, usize>,
}

impl<'tcx> Ex<'tcx> {
    fn ty(&mut self, t: Ty<'tcx>) -> J {
        let st = rustc_middle::ty::print::with_no_visible_paths!(
            rustc_middle::ty::print::with_no_trimmed_paths!(format!("{}", t))
        );
        if let Some(i) = self.type_ix.get(&st) {
            return J::I(*i as i128);
        }
        let i = self.types.len();
        self.types.push(st.clone());
        self.type_ix.insert(st, i);
        J::I(i as i128)
    }

    fn path(&self, did: DefId) -> String {
        // real definition paths (core::/alloc::), independent of which
        // re-exports happen to be visible from the crate being analysed
        rustc_middle::ty::print::with_no_visible_paths!(
            rustc_middle::ty::print::with_no_trimmed_paths!(self.tcx.def_path_str(did))
        )
    }

    fn span(&self, sp: Span) -> J {
        let sm = self.tcx.sess.source_map();
        let lo = sm.lookup_char_pos(sp.lo());
        let file = match &lo.file.name {
            rustc_span::FileName::Real(r) => match r.local_path() {
                Some(p) => p.display().to_string(),
                None => format!("{:?}", r),
            },
            other => format!("{:?}", other),
        };
        s(format!("{}:{}", file, lo.line))
    }

    fn adt_name(&self, t: Ty<'tcx>) -> Option<String> {
        match t.kind() {
            ty::Adt(def, _) => Some(self.path(def.did())),
            _ => None,
        }
    }

    fn place(&mut self, body: &Body<'tcx>, p: &Place<'tcx>) -> J {
        let tcx = self.tcx;
        let mut pty = mir::PlaceTy::from_ty(body.local_decls[p.local].ty);
        let mut proj = Vec::new();
        for elem in p.projection.iter() {
            let j = match elem {
                ProjectionElem::Deref => s("*"),
                ProjectionElem::Field(f, _) => {
                    let name = match pty.ty.kind() {
                        ty::Adt(def, _) => {
                            let v = pty.variant_index.unwrap_or(rustc_abi::FIRST_VARIANT);
                            if def.is_enum() || def.is_struct() || def.is_union() {
                                let var = def.variant(v);
                                var.fields
                                    .get(f)
                                    .map(|fd| fd.name.to_string())
                                    .unwrap_or_else(|| format!("{}", f.index()))
                            } else {
                                format!("{}", f.index())
                            }
                        }
                        _ => format!("{}", f.index()),
                    };
                    obj(vec![("f", s(name)), ("i", J::I(f.index() as i128))])
                }
                ProjectionElem::Index(l) => obj(vec![("ix", J::I(l.index() as i128))]),
                ProjectionElem::ConstantIndex { offset, from_end, .. } => obj(vec![
                    ("cix", J::I(offset as i128)),
                    ("from_end", J::B(from_end)),
                ]),
                ProjectionElem::Subslice { from, to, from_end } => obj(vec![
                    ("sub", J::A(vec![J::I(from as i128), J::I(to as i128)])),
                    ("from_end", J::B(from_end)),
                ]),
                ProjectionElem::Downcast(name, vi) => {
                    let n = match name {
                        Some(sym) => sym.to_string(),
                        None => match pty.ty.kind() {
                            ty::Adt(def, _) => def.variant(vi).name.to_string(),
                            _ => format!("{}", vi.index()),
                        },
                    };
                    obj(vec![("as", s(n))])
                }
                other => s(format!("?{:?}", other)),
            };
            proj.push(j);
            pty = pty.projection_ty(tcx, elem);
        }
        let t = self.ty(pty.ty);
        obj(vec![("l", J::I(p.local.index() as i128)), ("p", J::A(proj)), ("t", t)])
    }

    fn const_(&mut self, body_did: DefId, c: &mir::ConstOperand<'tcx>) -> J {
        let tcx = self.tcx;
        let ty = c.const_.ty();
        let mut v = vec![("t", self.ty(ty))];
        // function items
        if let ty::FnDef(did, args) = ty.kind() {
            v.push(("fn", s(self.path(*did))));
            v.push(("fnargs", s(format!("{:?}", args))));
            let env = TypingEnv::post_analysis(tcx, body_did);
            if let Ok(Some(inst)) = Instance::try_resolve(tcx, env, *did, args) {
                v.push(("rfn", s(self.path(inst.def_id()))));
            }
            return obj(v);
        }
        if let ty::Closure(did, _) = ty.kind() {
            v.push(("closure", s(self.path(*did))));
            return obj(v);
        }
        let env = TypingEnv::post_analysis(tcx, body_did);
        // scalars
        if ty.is_integral() || ty.is_bool() || ty.is_char() {
            if let Some(si) = c.const_.try_eval_scalar_int(tcx, env) {
                let size = si.size();
                let val: i128 = if ty.is_signed() {
                    si.to_int(size)
                } else {
                    let u = si.to_uint(size);
                    if u > i128::MAX as u128 {
                        // keep as string
                        v.push(("us", s(u.to_string())));
                        -1
                    } else {
                        u as i128
                    }
                };
                v.push(("v", J::I(val)));
                return obj(v);
            }
        }
        // string literals
        if let ty::Ref(_, inner, _) = ty.kind() {
            if inner.is_str() {
                if let Const::Val(cv, _) = c.const_ {
                    if let Some(bytes) = cv.try_get_slice_bytes_for_diagnostics(tcx) {
                        v.push(("str", s(String::from_utf8_lossy(bytes).to_string())));
                        return obj(v);
                    }
                }
                if let Ok(cv) = c.const_.eval(tcx, env, c.span) {
                    if let Some(bytes) = cv.try_get_slice_bytes_for_diagnostics(tcx) {
                        v.push(("str", s(String::from_utf8_lossy(bytes).to_string())));
                        return obj(v);
                    }
                }
            }
        }
        // named constants (unevaluated) keep their path
        if let Const::Unevaluated(uv, _) = c.const_ {
            v.push(("cpath", s(self.path(uv.def))));
            if let Some(pi) = uv.promoted {
                v.push(("promoted", J::B(true)));
                // what the promoted body mentions (named constants, scalars, strings)
                let mut mentions = Vec::new();
                if uv.def.is_local() {
                    let pbodies = tcx.promoted_mir(uv.def);
                    if let Some(pb) = pbodies.get(pi) {
                        for bbd in pb.basic_blocks.iter() {
                            for st in &bbd.statements {
                                if let StatementKind::Assign(b) = &st.kind {
                                    let txt = format!("{:?}", b.1);
                                    mentions.push(s(txt));
                                }
                            }
                            if let Some(term) = &bbd.terminator {
                                if let TerminatorKind::Call { func, args, .. } = &term.kind {
                                    let a: Vec<String> = args.iter().map(|x| format!("{:?}", x.node)).collect();
                                    mentions.push(s(format!("call {:?}({})", func, a.join(", "))));
                                }
                            }
                        }
                    }
                }
                v.push(("pm", J::A(mentions)));
            }
        }
        let mut txt = format!("{}", c.const_);
        if txt.len() > 160 {
            txt.truncate(160);
        }
        v.push(("txt", s(txt)));
        obj(v)
    }

    fn operand(&mut self, body: &Body<'tcx>, did: DefId, o: &Operand<'tcx>) -> J {
        match o {
            Operand::Copy(p) => obj(vec![("cp", self.place(body, p))]),
            Operand::Move(p) => obj(vec![("mv", self.place(body, p))]),
            Operand::Constant(c) => obj(vec![("c", self.const_(did, c))]),
            other => obj(vec![("other", s(format!("{:?}", other)))]),
        }
    }

    fn enum_variants(&self, t: Ty<'tcx>) -> J {
        match t.kind() {
            ty::Adt(def, _) if def.is_enum() => {
                let mut out = Vec::new();
                for (vi, d) in def.discriminants(self.tcx) {
                    out.push(J::A(vec![
                        J::I(d.val as i128),
                        s(def.variant(vi).name.to_string()),
                    ]));
                }
                J::A(out)
            }
            _ => J::Null,
        }
    }

    fn rvalue(&mut self, body: &Body<'tcx>, did: DefId, rv: &Rvalue<'tcx>) -> J {
        match rv {
            Rvalue::Use(o, ..) => obj(vec![("k", s("use")), ("o", self.operand(body, did, o))]),
            Rvalue::CopyForDeref(p) => obj(vec![
                ("k", s("use")),
                ("o", obj(vec![("cp", self.place(body, p))])),
            ]),
            Rvalue::Ref(_, bk, p) => {
                let m = matches!(bk, mir::BorrowKind::Mut { .. });
                obj(vec![("k", s("ref")), ("mut", J::B(m)), ("p", self.place(body, p))])
            }
            Rvalue::RawPtr(kind, p) => obj(vec![
                ("k", s("rawptr")),
                ("mut", J::B(matches!(kind, mir::RawPtrKind::Mut))),
                ("p", self.place(body, p)),
            ]),
            Rvalue::Cast(kind, o, t) => {
                let ks = match kind {
                    CastKind::PointerCoercion(pc, _) => format!("PointerCoercion({:?})", pc),
                    other => format!("{:?}", other),
                };
                obj(vec![
                    ("k", s("cast")),
                    ("ck", s(ks)),
                    ("o", self.operand(body, did, o)),
                    ("to", self.ty(*t)),
                ])
            }
            Rvalue::BinaryOp(op, ab) => obj(vec![
                ("k", s("bin")),
                ("op", s(format!("{:?}", op))),
                ("a", self.operand(body, did, &ab.0)),
                ("b", self.operand(body, did, &ab.1)),
            ]),
            Rvalue::UnaryOp(op, a) => obj(vec![
                ("k", s("un")),
                ("op", s(format!("{:?}", op))),
                ("a", self.operand(body, did, a)),
            ]),
            Rvalue::Discriminant(p) => {
                let pt = p.ty(body, self.tcx).ty;
                obj(vec![
                    ("k", s("discr")),
                    ("p", self.place(body, p)),
                    ("adt", self.adt_name(pt).map(s).unwrap_or(J::Null)),
                    ("variants", self.enum_variants(pt)),
                ])
            }
            Rvalue::Aggregate(kind, fields) => {
                let fs: Vec<J> = fields.iter().map(|o| self.operand(body, did, o)).collect();
                let mut v = vec![("k", s("agg"))];
                match &**kind {
                    AggregateKind::Adt(adid, vi, _, _, _) => {
                        let def = self.tcx.adt_def(*adid);
                        v.push(("ak", s("adt")));
                        v.push(("adt", s(self.path(*adid))));
                        v.push(("variant", s(def.variant(*vi).name.to_string())));
                        let names: Vec<J> = def
                            .variant(*vi)
                            .fields
                            .iter()
                            .map(|f| s(f.name.to_string()))
                            .collect();
                        v.push(("fnames", J::A(names)));
                    }
                    AggregateKind::Tuple => v.push(("ak", s("tuple"))),
                    AggregateKind::Array(_) => v.push(("ak", s("array"))),
                    AggregateKind::Closure(cd, _) => {
                        v.push(("ak", s("closure")));
                        v.push(("closure", s(self.path(*cd))));
                    }
                    other => {
                        v.push(("ak", s(format!("{:?}", other))));
                    }
                }
                v.push(("fields", J::A(fs)));
                obj(v)
            }
            Rvalue::Repeat(o, _) => {
                obj(vec![("k", s("repeat")), ("o", self.operand(body, did, o))])
            }
            other => obj(vec![("k", s("other")), ("txt", s(format!("{:?}", other)))]),
        }
    }

    fn unwind(&self, u: &mir::UnwindAction) -> J {
        match u {
            mir::UnwindAction::Cleanup(bb) => J::I(bb.index() as i128),
            _ => J::Null,
        }
    }

    fn body(&mut self, did: DefId, body: &Body<'tcx>) -> J {
        let tcx = self.tcx;
        // locals
        let mut names: BTreeMap<usize, String> = BTreeMap::new();
        for vdi in &body.var_debug_info {
            if let mir::VarDebugInfoContents::Place(p) = &vdi.value {
                if p.projection.is_empty() {
                    names.entry(p.local.index()).or_insert(vdi.name.to_string());
                }
            }
        }
        let mut locals = Vec::new();
        for (l, decl) in body.local_decls.iter_enumerated() {
            let mut v = vec![("t", self.ty(decl.ty))];
            if let Some(n) = names.get(&l.index()) {
                v.push(("n", s(n.clone())));
            }
            if let Some(a) = self.adt_name(decl.ty.peel_refs()) {
                v.push(("adt", s(a)));
            }
            locals.push(obj(v));
        }
        let mut blocks = Vec::new();
        for (_bb, data) in body.basic_blocks.iter_enumerated() {
            let mut stmts = Vec::new();
            for st in &data.statements {
                let line = self.span(st.source_info.span);
                let exp = st.source_info.span.from_expansion();
                match &st.kind {
                    StatementKind::Assign(b) => {
                        let (p, rv) = &**b;
                        stmts.push(obj(vec![
                            ("k", s("assign")),
                            ("lhs", self.place(body, p)),
                            ("rv", self.rvalue(body, did, rv)),
                            ("at", line),
                            ("exp", J::B(exp)),
                        ]));
                    }
                    StatementKind::SetDiscriminant { place, variant_index } => {
                        stmts.push(obj(vec![
                            ("k", s("setdiscr")),
                            ("lhs", self.place(body, place)),
                            ("variant", J::I(variant_index.index() as i128)),
                            ("at", line),
                        ]));
                    }
                    StatementKind::Intrinsic(i) => {
                        stmts.push(obj(vec![
                            ("k", s("intrinsic")),
                            ("txt", s(format!("{:?}", i))),
                            ("at", line),
                        ]));
                    }
                    _ => {}
                }
            }
            let term = data.terminator();
            let line = self.span(term.source_info.span);
            let exp = term.source_info.span.from_expansion();
            let bbj = |b: &BasicBlock| J::I(b.index() as i128);
            let mut t = match &term.kind {
                TerminatorKind::Goto { target } => {
                    obj(vec![("k", s("goto")), ("target", bbj(target))])
                }
                TerminatorKind::SwitchInt { discr, targets } => {
                    let mut ts = Vec::new();
                    for (val, bb) in targets.iter() {
                        ts.push(J::A(vec![J::I(val as i128), bbj(&bb)]));
                    }
                    obj(vec![
                        ("k", s("switch")),
                        ("discr", self.operand(body, did, discr)),
                        ("targets", J::A(ts)),
                        ("otherwise", bbj(&targets.otherwise())),
                    ])
                }
                TerminatorKind::Return => obj(vec![("k", s("return"))]),
                TerminatorKind::Unreachable => obj(vec![("k", s("unreachable"))]),
                TerminatorKind::UnwindResume => obj(vec![("k", s("resume"))]),
                TerminatorKind::UnwindTerminate(_) => obj(vec![("k", s("terminate"))]),
                TerminatorKind::Drop { place, target, unwind, .. } => obj(vec![
                    ("k", s("drop")),
                    ("p", self.place(body, place)),
                    ("target", bbj(target)),
                    ("unwind", self.unwind(unwind)),
                ]),
                TerminatorKind::Call { func, args, destination, target, unwind, fn_span, .. } => {
                    let f = self.operand(body, did, func);
                    let a: Vec<J> =
                        args.iter().map(|x| self.operand(body, did, &x.node)).collect();
                    obj(vec![
                        ("k", s("call")),
                        ("func", f),
                        ("args", J::A(a)),
                        ("dest", self.place(body, destination)),
                        ("target", target.as_ref().map(bbj).unwrap_or(J::Null)),
                        ("unwind", self.unwind(unwind)),
                        ("fexp", J::B(fn_span.from_expansion())),
                    ])
                }
                TerminatorKind::TailCall { func, args, .. } => {
                    let f = self.operand(body, did, func);
                    let a: Vec<J> =
                        args.iter().map(|x| self.operand(body, did, &x.node)).collect();
                    obj(vec![("k", s("tailcall")), ("func", f), ("args", J::A(a))])
                }
                TerminatorKind::Assert { cond, expected, msg, target, unwind } => {
                    let (kind, ops): (String, Vec<J>) = match &**msg {
                        AssertKind::BoundsCheck { len, index } => (
                            "BoundsCheck".into(),
                            vec![self.operand(body, did, len), self.operand(body, did, index)],
                        ),
                        AssertKind::Overflow(op, a, b) => (
                            format!("Overflow({:?})", op),
                            vec![self.operand(body, did, a), self.operand(body, did, b)],
                        ),
                        AssertKind::OverflowNeg(a) => {
                            ("OverflowNeg".into(), vec![self.operand(body, did, a)])
                        }
                        AssertKind::DivisionByZero(a) => {
                            ("DivisionByZero".into(), vec![self.operand(body, did, a)])
                        }
                        AssertKind::RemainderByZero(a) => {
                            ("RemainderByZero".into(), vec![self.operand(body, did, a)])
                        }
                        AssertKind::MisalignedPointerDereference { .. } => {
                            ("MisalignedPointerDereference".into(), vec![])
                        }
                        AssertKind::NullPointerDereference => {
                            ("NullPointerDereference".into(), vec![])
                        }
                        other => (format!("{:?}", other), vec![]),
                    };
                    obj(vec![
                        ("k", s("assert")),
                        ("cond", self.operand(body, did, cond)),
                        ("expected", J::B(*expected)),
                        ("kind", s(kind)),
                        ("ops", J::A(ops)),
                        ("target", bbj(target)),
                        ("unwind", self.unwind(unwind)),
                    ])
                }
                TerminatorKind::FalseEdge { real_target, .. } => {
                    obj(vec![("k", s("goto")), ("target", bbj(real_target))])
                }
                TerminatorKind::FalseUnwind { real_target, .. } => {
                    obj(vec![("k", s("goto")), ("target", bbj(real_target))])
                }
                other => obj(vec![("k", s("other")), ("txt", s(format!("{:?}", other)))]),
            };
            if let J::O(v) = &mut t {
                v.push(("at".into(), line));
                v.push(("exp".into(), J::B(exp)));
            }
            blocks.push(obj(vec![
                ("stmts", J::A(stmts)),
                ("term", t),
                ("cleanup", J::B(data.is_cleanup)),
            ]));
        }
        let kind = tcx.def_kind(did);
        let vis = match kind {
            DefKind::Fn | DefKind::AssocFn => {
                let v = tcx.visibility(did);
                if v.is_public() {
                    "pub".to_string()
                } else {
                    format!("{:?}", v)
                }
            }
            _ => "n/a".into(),
        };
        let is_unsafe = match kind {
            DefKind::Fn | DefKind::AssocFn => tcx.fn_sig(did).skip_binder().safety().is_unsafe(),
            _ => false,
        };
        let dspan = tcx.def_span(did);
        // impl-of-trait info
        let mut trait_impl = J::Null;
        let mut self_ty = J::Null;
        if let DefKind::AssocFn = kind {
            if let Some(impl_did) = tcx.impl_of_assoc(did) {
                let st = tcx.type_of(impl_did).skip_binder();
                self_ty = s(format!("{}", st));
                if let Some(tr) = tcx.impl_opt_trait_ref(impl_did) {
                    trait_impl = s(self.path(tr.skip_binder().def_id));
                }
            }
        }
        obj(vec![
            ("kind", s(format!("{:?}", kind))),
            ("vis", s(vis)),
            ("unsafe", J::B(is_unsafe)),
            ("span", self.span(dspan)),
            ("exp", J::B(dspan.from_expansion())),
            ("argc", J::I(body.arg_count as i128)),
            ("trait", trait_impl),
            ("self_ty", self_ty),
            ("locals", J::A(locals)),
            ("blocks", J::A(blocks)),
        ])
    }

    // structured type for the type graph
    fn tyj(&mut self, t: Ty<'tcx>, depth: usize) -> J {
        if depth > 12 {
            return obj(vec![("k", s("deep")), ("txt", s(format!("{}", t)))]);
        }
        match t.kind() {
            ty::Adt(def, args) => {
                let a: Vec<J> = args.types().map(|x| self.tyj(x, depth + 1)).collect();
                let lt: Vec<J> = args.regions().map(|r| s(format!("{:?}", r))).collect();
                obj(vec![
                    ("k", s("adt")),
                    ("adt", s(self.path(def.did()))),
                    ("local", J::B(def.did().is_local())),
                    ("args", J::A(a)),
                    ("regions", J::A(lt)),
                ])
            }
            ty::Ref(r, inner, m) => obj(vec![
                ("k", s("ref")),
                ("mut", J::B(m.is_mut())),
                ("region", s(format!("{:?}", r))),
                ("to", self.tyj(*inner, depth + 1)),
            ]),
            ty::RawPtr(inner, m) => obj(vec![
                ("k", s("rawptr")),
                ("mut", J::B(m.is_mut())),
                ("to", self.tyj(*inner, depth + 1)),
            ]),
            ty::Slice(inner) => obj(vec![("k", s("slice")), ("to", self.tyj(*inner, depth + 1))]),
            ty::Array(inner, _) => {
                obj(vec![("k", s("array")), ("to", self.tyj(*inner, depth + 1))])
            }
            ty::Tuple(ts) => {
                let a: Vec<J> = ts.iter().map(|x| self.tyj(x, depth + 1)).collect();
                obj(vec![("k", s("tuple")), ("args", J::A(a))])
            }
            ty::FnPtr(..) => obj(vec![("k", s("fnptr")), ("txt", s(format!("{}", t)))]),
            ty::Dynamic(..) => obj(vec![("k", s("dyn")), ("txt", s(format!("{}", t)))]),
            ty::Bool | ty::Char | ty::Int(_) | ty::Uint(_) | ty::Float(_) | ty::Str => {
                obj(vec![("k", s("prim")), ("txt", s(format!("{}", t)))])
            }
            _ => obj(vec![("k", s("other")), ("txt", s(format!("{}", t)))]),
        }
    }

    fn adts(&mut self) -> J {
        let tcx = self.tcx;
        let mut out = Vec::new();
        for id in tcx.hir_free_items() {
            let did = id.owner_id.to_def_id();
            match tcx.def_kind(did) {
                DefKind::Struct | DefKind::Enum | DefKind::Union => {}
                _ => continue,
            }
            let def = tcx.adt_def(did);
            let mut vars = Vec::new();
            for v in def.variants() {
                let mut fields = Vec::new();
                for f in &v.fields {
                    let fty = tcx.type_of(f.did).instantiate_identity().skip_norm_wip();
                    let vis = if f.vis.is_public() { "pub".to_string() } else { format!("{:?}", f.vis) };
                    fields.push(obj(vec![
                        ("name", s(f.name.to_string())),
                        ("ty", s(format!("{}", fty))),
                        ("vis", s(vis)),
                        ("tyj", self.tyj(fty, 0)),
                    ]));
                }
                vars.push(obj(vec![("name", s(v.name.to_string())), ("fields", J::A(fields))]));
            }
            // trait impls of interest
            let mut impls = Vec::new();
            let self_ty = tcx.type_of(did).instantiate_identity().skip_norm_wip();
            for (lang, name) in [
                (tcx.lang_items().clone_trait(), "Clone"),
                (tcx.lang_items().copy_trait(), "Copy"),
                (tcx.lang_items().drop_trait(), "Drop"),
            ] {
                if let Some(tr) = lang {
                    let mut found = false;
                    tcx.for_each_relevant_impl(tr, self_ty, |_| found = true);
                    if found {
                        impls.push(s(name));
                    }
                }
            }
            out.push((
                self.path(did),
                obj(vec![
                    ("kind", s(format!("{:?}", tcx.def_kind(did)))),
                    ("span", self.span(tcx.def_span(did))),
                    ("variants", J::A(vars)),
                    ("impls", J::A(impls)),
                ]),
            ));
        }
        J::O(out)
    }

    fn unsafe_inventory(&mut self) -> J {
        // unsafe fns, and bodies containing unsafe blocks (via THIR-free approach:
        // scan HIR for Block { rules: UnsafeBlock(UserProvided) }).
        use rustc_hir::intravisit::{self, Visitor};
        struct V<'a, 'tcx> {
            tcx: TyCtxt<'tcx>,
            out: &'a mut Vec<(String, Span)>,
            owner: String,
        }
        impl<'a, 'tcx> Visitor<'tcx> for V<'a, 'tcx> {
            fn visit_block(&mut self, b: &'tcx rustc_hir::Block<'tcx>) {
                if let rustc_hir::BlockCheckMode::UnsafeBlock(rustc_hir::UnsafeSource::UserProvided) =
                    b.rules
                {
                    if !b.span.from_expansion() {
                        self.out.push((self.owner.clone(), b.span));
                    }
                }
                intravisit::walk_block(self, b);
            }
        }
        let tcx = self.tcx;
        let mut found = Vec::new();
        for did in tcx.hir_body_owners() {
            let owner = self.path(did.to_def_id());
            let body = tcx.hir_body_owned_by(did);
            let mut v = V { tcx, out: &mut found, owner };
            let _ = v.tcx;
            v.visit_body(body);
        }
        let mut out = Vec::new();
        for (owner, sp) in found {
            out.push(obj(vec![("fn", s(owner)), ("at", self.span(sp))]));
        }
        J::A(out)
    }
}

struct Cb {
    out_dir: String,
    tag: String,
}

impl rustc_driver::Callbacks for Cb {
    fn config(&mut self, config: &mut rustc_interface::Config) {
        config.opts.unstable_opts.mir_opt_level = Some(0);
    }

    fn after_analysis<'tcx>(
        &mut self,
        _compiler: &rustc_interface::interface::Compiler,
        tcx: TyCtxt<'tcx>,
    ) -> Compilation {
        let mut ex = Ex { tcx, types: Vec::new(), type_ix: BTreeMap::new() };
        let mut fns = Vec::new();
        let mut statics = Vec::new();
        let mut consts = Vec::new();
        for ldid in tcx.hir_body_owners() {
            let did = ldid.to_def_id();
            match tcx.def_kind(did) {
                DefKind::Fn | DefKind::AssocFn | DefKind::Closure => {}
                DefKind::Const { .. } => {
                    // the initialiser of a named constant, so that a rule can ask what `cell::ZERO` is
                    if tcx.generics_of(did).count() == 0 {
                        let body = tcx.mir_for_ctfe(ldid);
                        let j = ex.body(did, body);
                        consts.push((ex.path(did), j));
                    }
                    continue;
                }
                DefKind::Static { mutability, .. } => {
                    statics.push(obj(vec![
                        ("path", s(ex.path(did))),
                        ("mut", J::B(mutability.is_mut())),
                        ("at", ex.span(tcx.def_span(did))),
                    ]));
                    continue;
                }
                _ => continue,
            }
            let body = tcx.optimized_mir(did);
            let j = ex.body(did, body);
            fns.push((ex.path(did), j));
        }
        let adts = ex.adts();
        let unsafe_blocks = ex.unsafe_inventory();
        let crate_name = tcx.crate_name(rustc_span::def_id::LOCAL_CRATE).to_string();
        let crate_types: Vec<J> =
            tcx.crate_types().iter().map(|c| s(format!("{:?}", c))).collect();
        let overflow_checks = tcx.sess.overflow_checks();
        let debug_assertions = tcx.sess.opts.debug_assertions;
        let types: Vec<J> = ex.types.iter().map(|t| s(t.clone())).collect();
        let top = obj(vec![
            ("crate", s(crate_name.clone())),
            ("crate_types", J::A(crate_types)),
            ("tag", s(self.tag.clone())),
            ("overflow_checks", J::B(overflow_checks)),
            ("debug_assertions", J::B(debug_assertions)),
            ("types", J::A(types)),
            ("fns", J::O(fns)),
            ("adts", adts),
            ("statics", J::A(statics)),
            ("consts", J::O(consts)),
            ("unsafe_blocks", unsafe_blocks),
        ]);
        let mut out = String::new();
        top.write(&mut out);
        let kind = if tcx.crate_types().iter().any(|c| format!("{:?}", c) == "Executable") {
            "bin"
        } else {
            "lib"
        };
        let path = format!("{}/{}-{}.json", self.out_dir, crate_name, kind);
        std::fs::create_dir_all(&self.out_dir).expect("facts dir");
        let tmp = format!("{}.tmp{}", path, std::process::id());
        std::fs::write(&tmp, out).expect("write facts");
        std::fs::rename(&tmp, &path).expect("rename facts");
        Compilation::Continue
    }
}

fn main() {
    let mut args: Vec<String> = std::env::args().collect();
    // argv[0] = this wrapper, argv[1] = real rustc, rest = rustc args
    if args.len() < 2 {
        eprintln!("xeh-facts: expected to be run as RUSTC_WRAPPER");
        std::process::exit(2);
    }
    let real_rustc = args[1].clone();
    let primary = std::env::var("CARGO_PRIMARY_PACKAGE").is_ok();
    let is_test = args.iter().any(|a| a == "--test");
    let is_probe = args.iter().any(|a| a == "-vV" || a == "--print" || a.starts_with("--print="))
        || !args.iter().any(|a| a == "--crate-name");
    let is_build_script = args.windows(2).any(|w| w[0] == "--crate-name" && w[1].starts_with("build_script"));
    let out_dir = std::env::var("XEH_FACTS_DIR").ok();
    if !primary || is_test || is_probe || is_build_script || out_dir.is_none() {
        // pass through, dropping `--cfg proc_macro_span` (DESIGN §2.4)
        let mut pass: Vec<String> = Vec::new();
        let mut i = 2;
        while i < args.len() {
            if args[i] == "--cfg" && i + 1 < args.len() && args[i + 1] == "proc_macro_span" {
                i += 2;
                continue;
            }
            pass.push(args[i].clone());
            i += 1;
        }
        let err = std::process::Command::new(&real_rustc).args(&pass).exec();
        eprintln!("xeh-facts: exec {} failed: {}", real_rustc, err);
        std::process::exit(2);
    }
    // primary package: run the compiler in-process
    args.remove(1);
    let tag = std::env::var("XEH_FACTS_TAG").unwrap_or_default();
    let mut cb = Cb { out_dir: out_dir.unwrap(), tag };
    rustc_driver::run_compiler(&args, &mut cb);
}
