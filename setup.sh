#!/bin/sh
# MANIFEST.setup_cmd: build the fact extractor and warm the dependency cache (offline).
set -e
cd "$(dirname "$0")"
export CARGO_NET_OFFLINE=true
(cd driver && cargo build --release --offline 2>&1 | tail -3)
python3 - <<'PY'
import sys
sys.path.insert(0, '.')
from xehlint import framework as fw
for cfg in ('dev',):
    p, th = fw.refresh_facts(cfg)
    print('facts', cfg, p, th[:12])
PY
