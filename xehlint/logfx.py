"""Log effects: which reverse-log entries a function appends, seen through helper functions.

The root primitive is `Vec::push` on State.reverse_log (found by A-WRITE, not by name).  A function's effects are
its own pushes plus those of every callee, with the callee's pushed value rewritten in the caller's terms (actual
arguments substituted, closures handed to the callee applied).  Each effect carries `pure`: inside the callee the
push depends on nothing but the recording state (every branch it is control-dependent on tests reverse_log /
is_recording()).  C02/C15 use this so that `if self.is_recording() { self.add_reverse_step(X) }`,
`self.add_reverse_step(X)` (self-guarding) and `self.log_with(|| X)` are the same thing to the rules."""
from .core import callee_of, expr_str, expr_walk, expr_subst_args, expr_children_map, simplify, op_place
from . import awrite

CALL_ONCE = ('core::ops::function::FnOnce::call_once', 'core::ops::function::FnMut::call_mut', 'core::ops::function::Fn::call')


def _recording_expr(e):
    s = expr_str(e, -14)
    return 'reverse_log' in s or 'is_recording' in s


def guards_pure(f, bb):
    """every switch the block is control-dependent on has a scrutinee about the recording state"""
    pd = f.postdominators()
    reach_to = _blocks_reaching(f, bb)
    for b2 in f.reachable_blocks():
        t = f.blocks[b2]['term']
        if t['k'] != 'switch' or b2 == bb or b2 not in reach_to:
            continue
        if bb in pd.get(b2, ()):
            continue        # bb runs whatever the outcome
        if not _recording_expr(f.expr_of_operand(t['discr'])):
            return False
    return True


def _blocks_reaching(f, bb):
    out = {bb}
    st = [bb]
    while st:
        x = st.pop()
        for p in f.pred(x):
            if p not in out:
                out.add(p)
                st.append(p)
    return out


def apply_closures(fx, e, depth=0):
    """rewrite call_once(closure{upvars}, ..) into the closure's result with the captures substituted"""
    if not isinstance(e, tuple) or depth > 4:
        return e
    e = expr_children_map(e, lambda x: apply_closures(fx, x, depth))
    if e[0] == 'call' and e[1] in CALL_ONCE and e[2]:
        c = _closure_of(e[2][0])
        if c is not None and c[0] in fx.fns:
            body = fx.fns[c[0]].expr_of_local(0)
            return apply_closures(fx, simplify(_subst_upvars(body, c[1])), depth + 1)
    return e


def _closure_of(e):
    while isinstance(e, tuple) and e[0] in ('ref', 'cast'):
        e = e[2]
    if isinstance(e, tuple) and e[0] == 'closure':
        return e[1], tuple(e[2])
    if isinstance(e, tuple) and e[0] == 'const' and isinstance(e[1], dict) and e[1].get('closure'):
        return e[1]['closure'], ()
    return None


def _subst_upvars(e, upvars):
    if not isinstance(e, tuple):
        return e
    if e[0] == 'proj' and isinstance(e[1], tuple) and e[1][0] == 'arg' and e[1][1] == 1:
        path = list(e[2])
        while path and path[0] == '*':
            path.pop(0)
        if path and str(path[0]).isdigit() and int(path[0]) < len(upvars):
            rest = tuple(path[1:])
            u = upvars[int(path[0])]
            return ('proj', u, rest) if rest else u
    return expr_children_map(e, lambda x: _subst_upvars(x, upvars))


def log_effects(fx, W, is_state_write):
    """fn -> [ {value, pure, bb, via} ] for the log helpers: functions that append to the log (directly or through
    other helpers) and write no machine state themselves.  A function that does write machine state is a log *site*
    owner: its entries are judged where they are made and do not travel further up."""
    fxs = {}
    memo = {}

    def writer(fn):
        """writes machine state itself or through a callee"""
        if fn in memo:
            return memo[fn]
        memo[fn] = False
        r = any(is_state_write(w) for w in W.get(fn, []))
        if not r:
            r = any(d in fx.fns and writer(d) for d in fx.callgraph().get(fn, ()))
        memo[fn] = r
        return r
    for fn, ws in W.items():
        f = fx.fns.get(fn)
        if f is None:
            continue
        for w in ws:
            if w['field'][0] == 'reverse_log' and w['how'].startswith('call:grow') and w.get('term') and len(w['term']['args']) >= 2:
                pure = guards_pure(f, w['bb'])
                if not pure:
                    # `let closed = matches!(log.last(), ..); if !closed { log.push(..) }`: the flag stands for the test it was computed by
                    from . import inline as _inl
                    ft = _inl.thread_fn(f)
                    if w['bb'] in ft.reachable_blocks():
                        pure = guards_pure(ft, w['bb'])
                fxs.setdefault(fn, []).append({'value': f.expr_of_operand(w['term']['args'][1]), 'pure': pure,
                                               'bb': w['bb'], 'via': (fn,)})
    for _ in range(4):
        changed = False
        for fn in sorted(fx.fns):
            f = fx.fns[fn]
            for bb, t in f.calls():
                c = callee_of(t)
                if c not in fxs or c == fn or writer(fn) or writer(c):
                    continue
                have = {(x['bb'], x['via']) for x in fxs.get(fn, [])}
                actuals = [f.expr_of_operand(a) for a in t['args']]
                for eff in fxs[c]:
                    via = (fn,) + eff['via']
                    if (bb, via) in have or len(via) > 4 or fn in eff['via']:
                        continue
                    v = apply_closures(fx, expr_subst_args(eff['value'], actuals))
                    fxs.setdefault(fn, []).append({'value': v, 'pure': eff['pure'] and guards_pure(f, bb), 'bb': bb, 'via': via})
                    changed = True
        if not changed:
            break
    return fxs


def sites(fx, f, fxs):
    """log sites of f: calls of functions with log effects (the root push itself is the callee's business).
    -> [(bb, variant, field exprs, term, value expr, pure_in_callee)]"""
    out = []
    for bb, t in f.calls():
        c = callee_of(t)
        if c not in fxs or c == f.name:
            continue
        actuals = [f.expr_of_operand(a) for a in t['args']]
        for eff in fxs[c]:
            if f.name in eff['via'] or eff['via'][0] != c:
                continue
            e = apply_closures(fx, expr_subst_args(eff['value'], actuals))
            alts = []
            for x in expr_walk(e):
                if isinstance(x, tuple) and x[0] == 'agg' and x[1] == 'state::ReverseStep':
                    if not any(x[2] == a[0] for a in alts):
                        alts.append((x[2], x[3]))
            if len(alts) <= 1:
                var, fields = alts[0] if alts else (None, ())
                out.append((bb, var, fields, t, e, eff['pure'], None))
            else:
                # the entry is chosen on the way (`let undo = if .. { A(..) } else { B(..) }; log(undo)`): one site per
                # alternative, tied to the block that builds it
                for var, fields in alts:
                    blocks = [b for b in f.reachable_blocks() for st in f.blocks[b]['stmts']
                              if st['k'] == 'assign' and st['rv']['k'] == 'agg' and st['rv'].get('adt') == 'state::ReverseStep'
                              and st['rv'].get('variant') == var]
                    out.append((bb, var, fields, t, e, eff['pure'], blocks or None))
    return out


def poppers(fx, W):
    """functions that pop the live reverse log: directly, or thin helpers / closures around such a pop"""
    out = set()
    for fn, ws in W.items():
        if any(w['field'][0] == 'reverse_log' and w['how'].startswith('call:shrink:pop') for w in ws):
            out.add(fn)
    # closures that take the log out of State.reverse_log and pop it in a nested closure (`.and_then(|log| log.pop())`)
    for fn, f in fx.fns.items():
        if '{closure' not in fn or fn in out:
            continue
        mentions = any('reverse_log' in expr_str(f.expr_of_operand(a), -12) for _, t in f.calls() for a in t['args'])
        if not mentions:
            continue
        inner = [x for x in fx.reachable_from([fn]) if x in fx.fns and x.startswith(fn)]
        if any((callee_of(t) or '').endswith('Vec::<T, A>::pop') for x in inner for _, t in fx.fns[x].calls()):
            out.add(fn)
    for _ in range(3):
        for fn, outs in fx.callgraph().items():
            if fn not in out and fn in fx.fns and len(fx.fns[fn].blocks) <= 12 and outs & out:
                if all((callee_of(t) in out) or not (callee_of(t) or '').startswith('state::State::') for _, t in fx.fns[fn].calls()):
                    out.add(fn)
    return out
