"""Form-independent questions about the drive functions (run / next) and the step function (fetch_and_run):
is a failing step recorded before it is reported, is its error propagated, who calls the step function.
Asked over views (inline.View) so that a `step()` helper between run/next and fetch_and_run changes nothing."""
from .core import callee_of, expr_walk, expr_str
from .pathq import exists_path_avoiding

STEP = 'state::State::fetch_and_run'
RECORDER = 'state::State::set_runtime_err_location'
MAP_ERR = 'core::result::Result::<T, E>::map_err'


def _mentions_call(e, name):
    return any(isinstance(x, tuple) and x[0] == 'call' and x[1] == name for x in expr_walk(e))


def callers_seen_through(fx, V, target):
    """non-helper functions that call `target` directly or through unnamed helpers (closures count as their parent)"""
    out = set()
    for fn in fx.fns:
        if V.transparent(fn) and fx.callers().get(fn):
            continue
        f = V(fn)
        if any(callee_of(t) == target for _, t in f.calls()):
            out.add(fn)
    return out


def step_error_recorded(fx, f, step=STEP, recorder=RECORDER, recorder_blocks=None, closure_records=None):
    """(recorded, propagated, how) for a drive function view f.
    recorded: every Err of the step call passes the recorder before the function returns - either through
      `.map_err(|e| { recorder(..); e })` on the step's result, or through a test of the result whose Err side cannot
      reach a return without calling the recorder;
    propagated: the value returned by f derives from the step's result (the error is not swallowed)."""
    recorded, how = False, ''
    for bb, t in f.calls():
        if callee_of(t) == MAP_ERR and len(t['args']) == 2:
            e0 = f.expr_of_operand(t['args'][0])
            e1 = f.expr_of_operand(t['args'][1])
            clo = [x for x in expr_walk(e1) if isinstance(x, tuple) and x[0] == 'closure']
            if _mentions_call(e0, step) and clo and clo[0][1] in fx.fns:
                inner = {clo[0][1]} | {c for c in fx.callgraph().get(clo[0][1], ()) if c in fx.fns}
                if any(callee_of(t2) == recorder for g in inner for _, t2 in fx.fns[g].calls()) or \
                        (closure_records is not None and any(closure_records(g) for g in inner)):
                    recorded, how = True, 'map_err closure on the step result calls the recorder'
    if not recorded:
        rec_blocks = {bb for bb, t in f.calls() if callee_of(t) == recorder} | set(recorder_blocks or ())
        rets = set(f.return_blocks())
        for bb in f.reachable_blocks():
            t = f.blocks[bb]['term']
            if t['k'] != 'switch' or not rec_blocks:
                continue
            e = f.expr_of_operand(t['discr'])
            if not (isinstance(e, tuple) and e[0] == 'discr' and e[2] == 'core::result::Result' and _mentions_call(e[1], step)):
                continue
            if 'Try>::branch' in expr_str(e[1], -6):
                continue      # the `?` switch is about propagation, not about recording
            listed = dict((v, tg) for v, tg in t['targets'])
            err_tgt = listed.get(1, t['otherwise'] if 1 not in listed else None)
            if err_tgt is None:
                continue
            p = exists_path_avoiding(f, err_tgt, lambda b: b in rets, rec_blocks) if err_tgt not in rec_blocks else None
            if p is None:
                recorded, how = True, 'the Err side of the test of the step result always calls the recorder'
    ret = f.expr_of_local(0)
    propagated = _mentions_call(ret, step)
    return recorded, propagated, how
