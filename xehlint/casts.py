"""Lossy integer conversions of user values.

`x as usize` on an i128 keeps the low 64 bits: `18446744073709551616 seek` would seek to 0 and
`[ 1 2 3 ] 18446744073709551616 nth` would return the first element.  A narrowing (or sign-changing) `as` cast whose
operand is the payload of a `Cell::Int` - directly or through the typed accessors - must be dominated by a range test that
makes it exact; otherwise an out-of-range argument is silently replaced by a different, in-range one."""
from .core import expr_walk, expr_str
from .zone import BITS, lin, strip, INF


def user_int(e):
    """does e derive from the integer payload of a cell (the value a program supplied)?"""
    for x in expr_walk(e):
        if isinstance(x, tuple) and x[0] == 'proj' and 'as Int' in x[2]:
            return True
        if isinstance(x, tuple) and x[0] == 'call' and x[1] in ('cell::Cell::to_xint', 'cell::Cell::to_usize', 'cell::Cell::to_isize'):
            return True
    return False


def target_range(ty):
    b = BITS[ty]
    if ty.startswith('i'):
        return -(1 << (b - 1)), (1 << (b - 1)) - 1
    return 0, (1 << b) - 1


def lossy_user_casts(fx, fns, build_zone, type_of_operand, is_user=None):
    """[(fn, from, to, at, exact?, why)] for narrowing / sign-changing casts of user integers in the given functions"""
    out = []
    for fn in sorted(fns):
        f = fx.fns[fn]
        for bb in f.reachable_blocks():
            for st in f.blocks[bb]['stmts']:
                if st['k'] != 'assign' or st['rv']['k'] != 'cast' or 'IntToInt' not in st['rv'].get('ck', '') or st.get('exp'):
                    continue
                to, frm = f.ty(st['rv']['to']), type_of_operand(f, st['rv']['o'])
                if frm not in BITS or to not in BITS:
                    continue
                lossy = BITS[to] < BITS[frm] or (BITS[to] == BITS[frm] and frm.startswith('i') != to.startswith('i'))
                if not lossy:
                    continue
                e = f.expr_of_operand(st['rv']['o'])
                if not (is_user or user_int)(e):
                    continue
                lo, hi = target_range(to)
                z, gtxt = build_zone(f, bb, [e])
                le = lin(e)
                up = z.upper(le)
                low_ok = z.prove_lin_ge(le, ({}, 0), lo) if lo > -(1 << 120) else True
                up_ok = up != INF and up <= hi
                # a source type that cannot be below the target minimum
                if not frm.startswith('i') and lo <= 0:
                    low_ok = True
                exact = low_ok and up_ok
                why = ('cast is exact: %s' % gtxt[:3]) if exact else \
                    ('`%s as %s` on a user integer %s: values outside %s..=%s wrap to a different value instead of being rejected'
                     % (expr_str(strip(e), -4)[:40], to, '(no range test dominates it)' if not gtxt else '(guards %s do not bound it)' % gtxt[:2], lo, hi))
                out.append((fn, frm, to, st.get('at'), exact, why))
    return out
