"""developer tool: pretty-print MIR bodies from a fact file
usage: python3 -m xehlint.mirdump <facts.json> <fn-substring>..."""
import sys, json
from .core import place_str as pl, op_str as op


def rv(r, T):
    k = r['k']
    if k == 'use': return op(r['o'])
    if k == 'ref': return ('&mut ' if r['mut'] else '&') + pl(r['p'])
    if k == 'rawptr': return '&raw ' + pl(r['p'])
    if k == 'bin': return '%s(%s, %s)' % (r['op'], op(r['a']), op(r['b']))
    if k == 'un': return '%s(%s)' % (r['op'], op(r['a']))
    if k == 'cast': return '%s as [%s] %s' % (op(r['o']), r['ck'], T[r['to']])
    if k == 'discr': return 'discr(%s)' % pl(r['p'])
    if k == 'agg': return '%s::%s{%s}' % (r.get('adt', r.get('closure', r['ak'])), r.get('variant', ''), ', '.join(op(x) for x in r['fields']))
    return str(r)


def show(d, fn):
    T = d['types']
    f = d['fns'][fn]
    print('fn %s  [%s %s] %s' % (fn, f['kind'], f['vis'], f['span']))
    for i, l in enumerate(f['locals']):
        if 'n' in l or i <= f['argc']:
            print('  let _%d: %s  // %s' % (i, T[l['t']], l.get('n', '')))
    for bi, b in enumerate(f['blocks']):
        print('bb%d%s:' % (bi, ' (cleanup)' if b['cleanup'] else ''))
        for s in b['stmts']:
            if s['k'] == 'assign':
                print('    %s = %s   @%s' % (pl(s['lhs']), rv(s['rv'], T), s['at'].split(':')[-1]))
            else:
                print('   ', s)
        t = b['term']
        k = t['k']
        ln = t.get('at', '').split(':')[-1]
        if k == 'call':
            print('    %s = %s(%s) -> bb%s unwind %s @%s' % (pl(t['dest']), op(t['func']), ', '.join(op(a) for a in t['args']), t['target'], t['unwind'], ln))
        elif k == 'switch':
            print('    switch %s %s otherwise bb%s @%s' % (op(t['discr']), t['targets'], t['otherwise'], ln))
        elif k == 'assert':
            print('    assert(%s == %s, %s %s) -> bb%s @%s' % (op(t['cond']), t['expected'], t['kind'], [op(x) for x in t['ops']], t['target'], ln))
        elif k == 'goto':
            print('    goto -> bb%s' % t['target'])
        elif k == 'drop':
            print('    drop(%s) -> bb%s' % (pl(t['p']), t['target']))
        else:
            print('    ', k)


if __name__ == '__main__':
    d = json.load(open(sys.argv[1]))
    for pat in sys.argv[2:]:
        for n in d['fns']:
            if pat in n:
                show(d, n)
                print()
