"""A-PATH / A-CDEP helpers on top of core.Fn"""
from collections import deque
from .core import callee_of, TRY_BRANCH, FROM_RESIDUAL, op_place, expr_walk


def try_continue_block(f, call_bb):
    """If the Result/Option produced by the call terminating `call_bb` is
    propagated with `?`, return the block executed on the Ok/Some (Continue)
    edge; otherwise None.  Also accepts `return call()` forms -> None."""
    t = f.blocks[call_bb]['term']
    if t['k'] != 'call' or t.get('target') is None:
        return None
    dest = t['dest']
    if dest['p']:
        return None
    l = dest['l']
    # follow: next block must call Try::branch(move l)
    bb = t['target']
    seen = set()
    while bb is not None and bb not in seen:
        seen.add(bb)
        b = f.blocks[bb]
        # allow trivial moves  _x = move _l
        for st in b['stmts']:
            if st['k'] == 'assign' and st['rv']['k'] == 'use':
                p = op_place(st['rv']['o'])
                if p is not None and p['l'] == l and not p['p'] and not st['lhs']['p']:
                    l = st['lhs']['l']
        tt = b['term']
        if tt['k'] == 'call' and callee_of(tt) in TRY_BRANCH:
            p = op_place(tt['args'][0])
            if p is None or p['l'] != l:
                return None
            br_local = tt['dest']['l']
            nb = tt['target']
            # nb: discriminant + switch
            sb = f.blocks[nb]
            if sb['term']['k'] != 'switch':
                return None
            e = f.expr_of_operand(sb['term']['discr'])
            if not (isinstance(e, tuple) and e[0] == 'discr'):
                return None
            for v, tgt in sb['term']['targets']:
                if v == 0:
                    return tgt
            return None
        if tt['k'] == 'goto':
            bb = tt['target']
            continue
        return None
    return None


def try_break_block(f, call_bb):
    """the block executed on the Err (Break) edge of a `?`"""
    t = f.blocks[call_bb]['term']
    if t['k'] != 'call' or t.get('target') is None:
        return None
    bb = t['target']
    b = f.blocks[bb]
    tt = b['term']
    if tt['k'] == 'call' and callee_of(tt) in TRY_BRANCH:
        sb = f.blocks[tt['target']]
        if sb['term']['k'] == 'switch':
            for v, tgt in sb['term']['targets']:
                if v == 1:
                    return tgt
    return None


def bool_branch(f, bb):
    """if block bb ends in a switch on a bool, return (expr, true_bb, false_bb)"""
    t = f.blocks[bb]['term']
    if t['k'] != 'switch':
        return None
    p = op_place(t['discr'])
    if p is None:
        return None
    if f.ty(p['t']) != 'bool':
        return None
    false_bb = None
    for v, tgt in t['targets']:
        if v == 0:
            false_bb = tgt
    if false_bb is None:
        return None
    return f.expr_of_operand(t['discr']), t['otherwise'], false_bb


CMP_OPS = {'Ge', 'Gt', 'Le', 'Lt', 'Eq', 'Ne'}
CMP_CALLS = {
    'core::cmp::PartialOrd::ge': 'Ge', 'core::cmp::PartialOrd::gt': 'Gt',
    'core::cmp::PartialOrd::le': 'Le', 'core::cmp::PartialOrd::lt': 'Lt',
    'core::cmp::PartialEq::eq': 'Eq', 'core::cmp::PartialEq::ne': 'Ne',
}


def cmp_of(e):
    """(op, a, b, negated) for a comparison expression, else None"""
    neg = False
    while isinstance(e, tuple) and e[0] == 'un' and e[1] == 'Not':
        neg = not neg
        e = e[2]
    if isinstance(e, tuple) and e[0] == 'bin' and e[1] in CMP_OPS:
        return e[1], e[2], e[3], neg
    if isinstance(e, tuple) and e[0] == 'call':
        c = e[1]
        for k, v in CMP_CALLS.items():
            if c == k or c.endswith('::' + k.split('::')[-1]) and ('PartialOrd' in c or 'PartialEq' in c):
                if len(e[2]) == 2:
                    return CMP_CALLS[k] if c == k else v, e[2][0], e[2][1], neg
    return None


def blocks_reaching(f, targets):
    """blocks from which some block in `targets` is reachable (incl. targets)"""
    out = set(targets)
    dq = deque(targets)
    while dq:
        b = dq.popleft()
        for p in f.pred(b):
            if p not in out:
                out.add(p)
                dq.append(p)
    return out


def blocks_after(f, src):
    """blocks reachable from src (excluding src unless on a cycle)"""
    out = set()
    dq = deque(f.succ(src))
    while dq:
        b = dq.popleft()
        if b in out:
            continue
        out.add(b)
        dq.extend(f.succ(b))
    return out


def exists_path_avoiding(f, src, dst_pred, avoid):
    """is there a path src ->* block satisfying dst_pred that visits no block
    in `avoid` (src itself is not tested against avoid)?  returns witness"""
    prev = {src: None}
    dq = deque([src])
    while dq:
        b = dq.popleft()
        if dst_pred(b) and b != src:
            path = []
            n = b
            while n is not None:
                path.append(n)
                n = prev[n]
            return list(reversed(path))
        for t in f.succ(b):
            if t in prev or t in avoid:
                continue
            prev[t] = b
            dq.append(t)
    if dst_pred(src):
        return [src]
    return None


def natural_loops(f):
    """list of (header, body set) for back edges t->h with h dom t"""
    loops = []
    dom = f.dominators()
    for b in f.reachable_blocks():
        for t in f.succ(b):
            if dom.get(b) is not None and t in dom[b]:
                # back edge b -> t
                body = {t, b}
                st = [b]
                while st:
                    x = st.pop()
                    if x == t:
                        continue
                    for p in f.pred(x):
                        if p not in body and dom.get(p) is not None:
                            body.add(p)
                            st.append(p)
                loops.append((t, body, b))
    return loops


def edge_guards(f, bb):
    """[(branch bb, expr, side)]: bool branches one of whose edges every path from the entry to `bb`
    must take (edge dominance) while the other edge is not such — the form-independent notion of
    "bb runs only if the condition is <side>" (covers if/else nesting and early-return guards alike)"""
    out = []
    entry = 0
    for b2 in f.reachable_blocks():
        br = bool_branch(f, b2)
        if br is None:
            continue
        e, tbb, fbb = br
        if tbb == fbb:
            continue
        need_t = not _reach_without_edge(f, entry, bb, b2, tbb)
        need_f = not _reach_without_edge(f, entry, bb, b2, fbb)
        if need_t != need_f:
            out.append((b2, e, need_t))
    out += _enum_switch_guards(f, bb)
    return out


def _enum_switch_guards(f, bb):
    """`match x { V => .. }` says what `x == V` says.  For a switch on the discriminant of a field-less enum (a mode, a byte order):
    the arm every path to bb takes yields the guard `<T as PartialEq>::eq(&x, &T::V)` = True, in the shape the `==` spelling has in
    MIR, so that rules written for one spelling read the other; the otherwise arm yields `eq(..V..)` = False for every listed V."""
    out = []
    from .core import ADTS as adts
    for b2 in f.reachable_blocks():
        t = f.blocks[b2]['term']
        if t['k'] != 'switch':
            continue
        d = f.expr_of_operand(t['discr'])
        if not (isinstance(d, tuple) and d[0] == 'discr' and isinstance(d[2], str)):
            continue
        adt = adts.get(d[2])
        if not adt or any(v.get('fields') for v in adt.get('variants', [])) or len(adt.get('variants', [])) < 2:
            continue
        names = [v['name'] for v in adt['variants']]
        listed = [(v, tg) for v, tg in t['targets'] if isinstance(v, int) and v < len(names)]

        def mk(vi):
            return ('call', '<%s as core::cmp::PartialEq>::eq' % d[2],
                    (('ref', False, d[1]), ('ref', False, ('const', {'pm': ['%s::%s' % (d[2], names[vi])], 'txt': '%s::%s' % (d[2], names[vi]), 'synthetic': True}))), b2)
        taken = None
        for v, tg in listed:
            others = [tg2 for v2, tg2 in listed if v2 != v] + ([t['otherwise']] if t.get('otherwise') is not None else [])
            if tg in others:
                continue
            if not _reach_without_edge(f, 0, bb, b2, tg):
                out.append((b2, mk(v), True))
                taken = v
        ot = t.get('otherwise')
        if taken is None and ot is not None and ot not in [tg for _, tg in listed] and not _reach_without_edge(f, 0, bb, b2, ot):
            rest = [i for i in range(len(names)) if i not in [v for v, _ in listed]]
            for v, _ in listed:
                out.append((b2, mk(v), False))
            if len(rest) == 1:
                out.append((b2, mk(rest[0]), True))
    return out


def _reach_without_edge(f, src, dst, eb, et):
    """is dst reachable from src without traversing the edge eb->et?"""
    if src == dst:
        return True
    seen = {src}
    dq = deque([src])
    while dq:
        b = dq.popleft()
        for s in f.succ(b):
            if b == eb and s == et:
                continue
            if s == dst:
                return True
            if s not in seen:
                seen.add(s)
                dq.append(s)
    return False


NEGATE = {'Ge': 'Lt', 'Gt': 'Le', 'Le': 'Gt', 'Lt': 'Ge', 'Eq': 'Ne', 'Ne': 'Eq'}
FLIP = {'Ge': 'Le', 'Gt': 'Lt', 'Le': 'Ge', 'Lt': 'Gt', 'Eq': 'Eq', 'Ne': 'Ne'}


def cmp_on_side(e, side):
    """(op, a, b) that holds when the branch on e takes `side`, or None"""
    c = cmp_of(e)
    if c is None:
        return None
    op, a, b, neg = c
    if neg != (not side):
        op = NEGATE[op]
    return op, a, b


def error_blocks(f):
    """blocks that create an error value: `?` residual conversion, `Err(..)` / `None` construction.  A path that passes one
    of them is an error path; in a view with helpers spliced in, this is what keeps a path from leaving a helper through
    its error exit and continuing on the caller's success edge (the search is not value-sensitive)."""
    from .core import FROM_RESIDUAL
    out = set()
    for bb in f.reachable_blocks():
        b = f.blocks[bb]
        t = b['term']
        if t['k'] == 'call' and callee_of(t) in FROM_RESIDUAL:
            out.add(bb)
        for st in b['stmts']:
            if st['k'] == 'assign' and st['rv']['k'] == 'agg' and st['rv'].get('adt') == 'core::result::Result' and st['rv'].get('variant') == 'Err':
                out.add(bb)
    return out
