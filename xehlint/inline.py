"""MIR-level inlining over the JSON facts: a *view* of a function in which the bodies of transparent callees are
spliced into the caller's control-flow graph.

Why: rules are written against anchor functions (build_from, context_close, open_bitstr, run_line ...).  When a
maintainer moves part of an anchor into a private helper, the behaviour is the same and so must the verdict be.
A rule names its vocabulary - the functions its statement talks about - and analyses the anchor with every other
local, non-recursive, closure-free callee inlined (depth-bounded).  Dominance, path and provenance queries then
run over the combined graph exactly as they would have over the un-extracted code.

Splice at `bb: dest = g(args) -> target`:
  * g's locals are appended (index + offset); its blocks are appended (index + offset);
  * bb gets `param_i := arg_i` assignments and a goto to g's entry;
  * every `return` of g becomes `dest := move g._0; goto target`.
Unwind edges of g are dropped (the rules never follow unwinding).  Statements keep their `at`; spliced statements
and terminators carry `inl: <callee>` so a report can say where the code lives."""
import copy
from .core import Fn, callee_of

MAX_BLOCKS = 120
_CALL_CLOSURE = ('core::ops::function::FnOnce::call_once', 'core::ops::function::FnMut::call_mut', 'core::ops::function::Fn::call')


def _whole(o):
    p = o.get('cp') or o.get('mv') if isinstance(o, dict) else None
    return p['l'] if p is not None and not p['p'] else None


def _closure_operand(fv, o):
    """name of the closure an operand denotes in the (partially built) view fv, or None"""
    if 'c' in o:
        return o['c'].get('closure')
    e = fv.expr_of_operand(o)
    hops = 0
    while isinstance(e, tuple) and hops < 12:
        hops += 1
        if e[0] in ('ref', 'cast'):
            e = e[2]
        elif e[0] == 'proj' and all(p == '*' for p in e[2]):
            e = e[1]
        else:
            break
    if isinstance(e, tuple) and e[0] == 'closure':
        return e[1]
    if isinstance(e, tuple) and e[0] == 'const' and isinstance(e[1], dict) and e[1].get('closure'):
        return e[1]['closure']
    return None


def _shift_place(p, off_l):
    p['l'] += off_l
    for el in p['p']:
        if isinstance(el, dict) and 'ix' in el:      # Index(local) projection
            el['ix'] += off_l


def _walk_places(j, fn):
    """apply fn to every place dict ({'l':..,'p':..}) inside a JSON value"""
    if isinstance(j, dict):
        if 'l' in j and 'p' in j and isinstance(j['l'], int):
            fn(j)
            return
        for v in j.values():
            _walk_places(v, fn)
    elif isinstance(j, list):
        for v in j:
            _walk_places(v, fn)


def _shift_block_targets(t, off_b):
    k = t['k']
    if k == 'goto':
        t['target'] += off_b
    elif k == 'switch':
        t['targets'] = [[v, b + off_b] for v, b in t['targets']]
        t['otherwise'] += off_b
    elif k in ('call', 'drop', 'assert'):
        if t.get('target') is not None:
            t['target'] += off_b
        t['unwind'] = None


def default_transparent(fx, vocabulary, max_blocks=MAX_BLOCKS):
    """callee predicate: crate-local, not a closure, not part of the rule's vocabulary, not a registered word, small"""
    vocab = set(vocabulary)
    try:
        words = {w['target'] for w in fx.registry()['words']}
    except Exception:
        words = set()

    def transparent(name):
        g = fx.fns.get(name)
        if g is None or name in vocab or '{closure' in name or name in words:
            return False
        if g.nblocks > max_blocks:
            return False
        return True
    return transparent


def inline_fn(fx, f, transparent, depth=2, thread=True):
    """a new Fn for f with transparent callees spliced in (recursively up to `depth`); f itself when nothing applies"""
    j = None
    inlined = []
    splices = []
    # work on (block index, remaining depth, call stack) so nested helpers are expanded too
    budget = {}
    changed = True
    cur = f
    stack_of = {}
    rounds = 0
    while changed and rounds < 40:
        changed = False
        rounds += 1
        blocks = j['blocks'] if j is not None else cur.blocks
        for bb in range(len(blocks)):
            t = blocks[bb]['term']
            if t['k'] != 'call' or t.get('target') is None:
                continue
            c = callee_of(t)
            call_args = t['args']
            if c in _CALL_CLOSURE and len(t['args']) == 2 and j is not None:
                # a closure handed to a spliced helper and invoked there: splice the closure body as well, if the callee
                # operand is (a reference to) one closure written in this crate
                cl = _closure_operand(Fn(f.name, j, f.types), t['args'][0])
                tl = _whole(t['args'][1])
                if cl is not None and cl in fx.fns and tl is not None:
                    g0 = fx.fns[cl]
                    stack = stack_of.get(bb, ())
                    if cl not in stack and len(stack) < depth + 1 and g0.nblocks <= MAX_BLOCKS:
                        c = cl
                        call_args = [t['args'][0]] + [{'mv': {'l': tl, 'p': [{'f': str(i), 'i': i}], 't': g0.j['locals'][2 + i]['t']}}
                                                      for i in range(g0.argc - 1)]
                        ok_closure = True
                    else:
                        continue
                else:
                    continue
            elif c is None or c == f.name or not transparent(c):
                continue
            stack = stack_of.get(bb, ())
            if c in stack or len(stack) >= depth + (1 if '{closure' in c else 0):
                continue
            g = fx.fns[c]
            if len(call_args) != g.argc:
                continue
            if j is None:
                j = copy.deepcopy(f.j)
                blocks = j['blocks']
                t = blocks[bb]['term']
            off_l = len(j['locals'])
            off_b = len(blocks)
            j['locals'].extend(copy.deepcopy(g.j['locals']))
            gblocks = copy.deepcopy(g.j['blocks'])
            at = t.get('at')
            for i, gb in enumerate(gblocks):
                for st in gb['stmts']:
                    _walk_places(st, lambda p: _shift_place(p, off_l))
                    st['inl'] = c
                gt = gb['term']
                _walk_places(gt, lambda p: _shift_place(p, off_l))
                gt['inl'] = c
                if gt['k'] == 'return':
                    ret_local = {'l': off_l, 'p': [], 't': g.j['locals'][0]['t']}
                    gb['stmts'].append({'k': 'assign', 'lhs': copy.deepcopy(t['dest']), 'rv': {'k': 'use', 'o': {'mv': ret_local}},
                                        'at': gt.get('at', at), 'exp': False, 'inl': c, 'ret': True})
                    gb['term'] = {'k': 'goto', 'target': t['target'], 'at': gt.get('at', at), 'exp': False, 'inl': c}
                else:
                    _shift_block_targets(gt, off_b)
                stack_of[off_b + i] = stack + (c,)
            # parameter passing
            for i, a in enumerate(call_args):
                blocks[bb]['stmts'].append({'k': 'assign', 'lhs': {'l': off_l + 1 + i, 'p': [], 't': g.j['locals'][1 + i]['t']},
                                            'rv': {'k': 'use', 'o': copy.deepcopy(a)}, 'at': at, 'exp': False, 'inl': c, 'param': True})
            blocks[bb]['term'] = {'k': 'goto', 'target': off_b, 'at': at, 'exp': False, 'inl': c, 'was_call': c}
            blocks.extend(gblocks)
            inlined.append(c)
            splices.append((c, off_b, bb))
            changed = True
    if j is None:
        return f
    threaded = thread_jumps(j, f.types) if thread else 0
    nf = Fn(f.name, j, f.types)
    nf.threaded = threaded
    nf.inlined = inlined
    nf.splices = splices
    return nf



# ----------------------------------------------------------------------------------------------------------------
# jump threading on views
#
# Splicing a helper that returns Option / Result / bool creates the classic correlated-branch shape
#     helper:  if c { r = Some(x) } else { r = None }      caller:  match r { Some(..) => A, None => B }
# (and `helper()?` = switch on the Ok/Err the helper just built).  The path, dominance and guard queries are not
# value-sensitive, so they would see the infeasible path  "r = Some .. -> B".  For each switch on the variant (or truth)
# of a local whose every definition builds a known variant, the blocks between a definition and the switch are
# duplicated and the copy of the switch jumps straight to that variant's target.  Only views are rewritten.
from .core import TRY_BRANCH, FROM_RESIDUAL

_TRY_MAP = {'Ok': 'Continue', 'Some': 'Continue', 'Err': 'Break', 'None': 'Break'}
MAX_CORRIDOR = 24
MAX_ADDED = 600


def _succs(t):
    k = t['k']
    if k == 'goto':
        return [t['target']]
    if k == 'switch':
        return [b for _, b in t['targets']] + [t['otherwise']]
    if k in ('call', 'drop', 'assert'):
        return [t['target']] if t.get('target') is not None else []
    return []


def _retarget(t, m):
    k = t['k']
    if k == 'goto':
        t['target'] = m.get(t['target'], t['target'])
    elif k == 'switch':
        t['targets'] = [[v, m.get(b, b)] for v, b in t['targets']]
        t['otherwise'] = m.get(t['otherwise'], t['otherwise'])
    elif k in ('call', 'drop', 'assert'):
        if t.get('target') is not None:
            t['target'] = m.get(t['target'], t['target'])


def _whole_local(o):
    p = o.get('cp') or o.get('mv') if isinstance(o, dict) else None
    if p is not None and not p['p']:
        return p['l']
    return None


def _defs_of(blocks, L):
    out = []
    for bb, b in enumerate(blocks):
        for st in b['stmts']:
            if st['k'] in ('assign', 'setdiscr') and st['lhs']['l'] == L:
                out.append((bb, 'stmt', st))
        t = b['term']
        if t['k'] == 'call' and t.get('dest') is not None and t['dest']['l'] == L:
            out.append((bb, 'call', t))
    return out


def _root_defs(blocks, types, L, depth=0, seen=()):
    """[(block, variant name | 'true' | 'false' | None)] covering every definition of local L: None marks a definition
    whose variant is not known statically (it is left alone, but must not lie in a threaded corridor)"""
    if depth > 5 or L in seen:
        return [(-1, None)]
    res = []
    ds = _defs_of(blocks, L)
    if not ds:
        return [(-1, None)]
    inv = {'true': 'false', 'false': 'true'}
    for bb, kind, d in ds:
        if kind == 'stmt':
            if d['k'] != 'assign' or d['lhs']['p']:
                res.append((bb, None))
                continue
            rv = d['rv']
            if rv['k'] == 'agg' and rv.get('ak') == 'adt' and rv.get('variant'):
                res.append((bb, rv['variant']))
            elif rv['k'] == 'use' and 'c' in rv['o']:
                c = rv['o']['c']
                if c.get('cpath') == 'error::OK' or 'error::OK' in c.get('txt', ''):
                    res.append((bb, 'Ok'))
                elif types[c['t']] == 'bool' and c.get('v') in (0, 1):
                    res.append((bb, 'true' if c['v'] == 1 else 'false'))
                else:
                    res.append((bb, None))
            elif rv['k'] == 'use' and _whole_local(rv['o']) is not None:
                res += _root_defs(blocks, types, _whole_local(rv['o']), depth + 1, seen + (L,))
                res.append((bb, None)) if False else None
            elif rv['k'] == 'un' and rv.get('op') == 'Not' and _whole_local(rv['a']) is not None and types[d['lhs']['t']] == 'bool':
                res += [(b2, inv.get(v)) for b2, v in _root_defs(blocks, types, _whole_local(rv['a']), depth + 1, seen + (L,))]
            else:
                res.append((bb, None))
        else:
            c = callee_of(d)
            if c in FROM_RESIDUAL:
                res.append((bb, 'Err' if 'Result' in c else 'None'))
            elif c in TRY_BRANCH and len(d['args']) == 1 and _whole_local(d['args'][0]) is not None:
                res += [(b2, _TRY_MAP.get(v)) for b2, v in _root_defs(blocks, types, _whole_local(d['args'][0]), depth + 1, seen + (L,))]
            else:
                res.append((bb, None))
    return res


def _switch_info(blocks, types, S):
    """(scrutinee local, {variant name: target}) for a switch on the variant of a whole local (or on a bool local)"""
    t = blocks[S]['term']
    if t['k'] != 'switch':
        return None
    d = _whole_local(t['discr'])
    if d is None:
        return None
    listed = dict((v, b) for v, b in t['targets'])
    # discriminant read in this block?
    for st in blocks[S]['stmts']:
        if st['k'] == 'assign' and st['lhs']['l'] == d and not st['lhs']['p'] and st['rv']['k'] == 'discr':
            pl = st['rv']['p']
            if pl['p']:
                return None
            tgt = {}
            for val, name in st['rv'].get('variants') or []:
                tgt[name] = listed.get(val, t['otherwise'])
            return pl['l'], tgt
    if types[t['discr'].get('cp', t['discr'].get('mv'))['t']] == 'bool':
        # `switchInt(move _b)`: the local must not be redefined in this block after ... (it is defined elsewhere)
        loc = d
        for st in blocks[S]['stmts']:
            if st['k'] == 'assign' and st['lhs']['l'] == loc:
                # `_t = copy _b; switchInt(move _t)`: the tested value is _b
                src = _whole_local(st['rv']['o']) if st['rv']['k'] == 'use' and not st['lhs']['p'] else None
                if src is None:
                    return None
                loc = src
        return loc, {'false': listed.get(0, t['otherwise']), 'true': listed.get(1, t['otherwise'])}
    return None


def thread_jumps(j, types):
    blocks = j['blocks']
    added = 0
    done = set()
    for _round in range(4):
        progress = False
        for S in range(len(blocks)):
            if S in done:
                continue
            info = _switch_info(blocks, types, S)
            if info is None:
                continue
            L, tgt = info
            roots = _root_defs(blocks, types, L)
            if not roots or not any(v in tgt for _, v in roots):
                continue
            done.add(S)
            preds = None
            chain_blocks = {b for b, _ in roots}
            for BD, V in roots:
                if BD == S or BD < 0 or V not in tgt:
                    continue
                # corridor: blocks strictly between BD and S
                fwd = set()
                st = [x for x in _succs(blocks[BD]['term'])]
                while st:
                    x = st.pop()
                    if x in fwd or x == S:
                        continue
                    fwd.add(x)
                    st.extend(_succs(blocks[x]['term']))
                if preds is None:
                    preds = {}
                    for b in range(len(blocks)):
                        for x in _succs(blocks[b]['term']):
                            preds.setdefault(x, []).append(b)
                back = set()
                st = list(preds.get(S, []))
                while st:
                    x = st.pop()
                    if x in back or x == S:
                        continue
                    back.add(x)
                    st.extend(preds.get(x, []))
                C = fwd & back
                if BD in C or (C & (chain_blocks - {BD})) or len(C) > MAX_CORRIDOR or added + len(C) + 1 > MAX_ADDED:
                    continue
                if S not in _reach_from(blocks, BD):
                    continue
                m = {}
                for b in sorted(C | {S}):
                    m[b] = len(blocks)
                    nb = copy.deepcopy(blocks[b])
                    nb['orig'] = blocks[b].get('orig', b)
                    blocks.append(nb)
                    added += 1
                for b in C:
                    _retarget(blocks[m[b]]['term'], m)
                sc = blocks[m[S]]
                sc['term'] = {'k': 'goto', 'target': tgt[V], 'at': sc['term'].get('at'), 'exp': sc['term'].get('exp', False), 'threaded': V}
                _retarget(blocks[BD]['term'], m)
                preds = None
                progress = True
        if not progress:
            break
    return added


def _reach_from(blocks, a):
    seen = set()
    st = [a]
    while st:
        x = st.pop()
        for t in _succs(blocks[x]['term']):
            if t not in seen:
                seen.add(t)
                st.append(t)
    return seen


_VOCAB = [None]


def rule_vocabulary():
    """every crate function name that appears as a string literal in the rule sources or tables: the functions some
    rule talks about.  A local function that no rule names is a helper and is looked through."""
    if _VOCAB[0] is None:
        import glob, os, re
        here = os.path.dirname(os.path.abspath(__file__))
        names = set()
        pat = re.compile(r"""['"]((?:<)?[a-z_][a-z_0-9]*::[^'"\n]*)['"]""")
        files = glob.glob(os.path.join(here, 'rules', '*.py')) + glob.glob(os.path.join(here, '*.py')) + \
            glob.glob(os.path.join(os.path.dirname(here), 'tables', '*'))
        for fp in files:
            if os.path.basename(fp) in ('anchors.json',):
                continue          # derived from the vocabulary; its fingerprints list callees that no rule names
            try:
                txt = open(fp).read()
            except OSError:
                continue
            for m in pat.finditer(txt):
                names.add(m.group(1))
            for line in txt.split('\n'):
                if line.startswith('C08:'):
                    names.add(line.split(':', 1)[1].split(':call:')[0].split(':Overflow')[0].split(':panic:')[0].split(':BoundsCheck')[0])
        _VOCAB[0] = names
    return _VOCAB[0]


def thread_fn(f):
    """a copy of f with correlated branches threaded (no splicing): `let ok = a && b; if !ok { return }` then reads like
    the nested ifs it stands for"""
    j = copy.deepcopy(f.j)
    n = thread_jumps(j, f.types)
    if not n:
        return f
    nf = Fn(f.name, j, f.types)
    nf.inlined = []
    nf.splices = []
    nf.threaded = n
    return nf


class View:
    """lazy cache of inlined views of functions under one transparency predicate"""

    def __init__(self, fx, vocabulary=(), depth=2, max_blocks=MAX_BLOCKS, use_global=True):
        """use_global=False: only `vocabulary` stays opaque - every other local callee is spliced in"""
        self.fx = fx
        self.transparent = default_transparent(fx, set(vocabulary) | (rule_vocabulary() if use_global else set()), max_blocks)
        self.depth = depth
        self._c = {}

    def __call__(self, name_or_fn):
        f = name_or_fn if isinstance(name_or_fn, Fn) else self.fx.fns.get(name_or_fn)
        if f is None:
            return None
        if f.name not in self._c:
            v = inline_fn(self.fx, f, self.transparent, self.depth)
            self._c[f.name] = thread_fn(f) if v is f else v
        return self._c[f.name]

    def inlined_into(self, name):
        v = self(name)
        return list(getattr(v, 'inlined', []))


def view_writes(fx, V, tracked, base=None):
    """A-WRITE over views: {function: write events} where unnamed helpers are dropped and what they write appears in the
    functions that call them (at the splice).  `base` = awrite.all_field_writes result for the original functions, reused
    for functions whose view is the function itself."""
    from . import awrite
    base = base if base is not None else awrite.all_field_writes(fx, 'state', tracked)
    out = {}
    for fn, f0 in fx.fns.items():
        if V.transparent(fn) and fx.callers().get(fn):
            continue
        # a view is needed only if some callee (depth <= V.depth) is a helper
        need = False
        frontier = {fn}
        for _ in range(V.depth):
            nxt = set()
            for g in frontier:
                for c in fx.callgraph().get(g, ()):
                    if c in fx.fns and c != fn and V.transparent(c):
                        if base.get(c):
                            need = True      # the helper writes tracked state: that write belongs to this function's view
                        nxt.add(c)
            frontier = nxt
        if not need:
            if base.get(fn):
                out[fn] = base[fn]
            continue
        v = V(fn)
        ws = awrite.field_writes(fx, v, tracked) if v is not f0 else base.get(fn, [])
        if ws:
            out[fn] = ws
    return out
