"""MIR-level inlining over the JSON facts: a *view* of a function in which the bodies of transparent callees are
spliced into the caller's control-flow graph.

Why: rules are written against anchor functions (build_from, context_close, open_bitstr, run_line ...).  When a
maintainer moves part of an anchor into a private helper, the behaviour is the same and so must the verdict be.
A rule names its vocabulary - the functions its statement talks about - and analyses the anchor with every other
local, non-recursive, closure-free callee inlined (depth-bounded).  Dominance, path and provenance queries then
run over the combined graph exactly as they would have over the un-extracted code.

Splice at `bb: dest = g(args) -> target`:
  * g's locals are appended (index + offset); its blocks are appended (index + offset);
  * bb gets `param_i := arg_i` assignments and a goto to g's entry;
  * every `return` of g becomes `dest := move g._0; goto target`.
Unwind edges of g are dropped (the rules never follow unwinding).  Statements keep their `at`; spliced statements
and terminators carry `inl: <callee>` so a report can say where the code lives."""
import copy
from .core import Fn, callee_of

MAX_BLOCKS = 120


def _shift_place(p, off_l):
    p['l'] += off_l
    for el in p['p']:
        if isinstance(el, dict) and 'ix' in el:      # Index(local) projection
            el['ix'] += off_l


def _walk_places(j, fn):
    """apply fn to every place dict ({'l':..,'p':..}) inside a JSON value"""
    if isinstance(j, dict):
        if 'l' in j and 'p' in j and isinstance(j['l'], int):
            fn(j)
            return
        for v in j.values():
            _walk_places(v, fn)
    elif isinstance(j, list):
        for v in j:
            _walk_places(v, fn)


def _shift_block_targets(t, off_b):
    k = t['k']
    if k == 'goto':
        t['target'] += off_b
    elif k == 'switch':
        t['targets'] = [[v, b + off_b] for v, b in t['targets']]
        t['otherwise'] += off_b
    elif k in ('call', 'drop', 'assert'):
        if t.get('target') is not None:
            t['target'] += off_b
        t['unwind'] = None


def default_transparent(fx, vocabulary, max_blocks=MAX_BLOCKS):
    """callee predicate: crate-local, not a closure, not part of the rule's vocabulary, not a registered word, small"""
    vocab = set(vocabulary)
    try:
        words = {w['target'] for w in fx.registry()['words']}
    except Exception:
        words = set()

    def transparent(name):
        g = fx.fns.get(name)
        if g is None or name in vocab or '{closure' in name or name in words:
            return False
        if g.nblocks > max_blocks:
            return False
        return True
    return transparent


def inline_fn(fx, f, transparent, depth=2):
    """a new Fn for f with transparent callees spliced in (recursively up to `depth`); f itself when nothing applies"""
    j = None
    inlined = []
    splices = []
    # work on (block index, remaining depth, call stack) so nested helpers are expanded too
    budget = {}
    changed = True
    cur = f
    stack_of = {}
    rounds = 0
    while changed and rounds < 40:
        changed = False
        rounds += 1
        blocks = j['blocks'] if j is not None else cur.blocks
        for bb in range(len(blocks)):
            t = blocks[bb]['term']
            if t['k'] != 'call' or t.get('target') is None:
                continue
            c = callee_of(t)
            if c is None or c == f.name or not transparent(c):
                continue
            stack = stack_of.get(bb, ())
            if c in stack or len(stack) >= depth:
                continue
            g = fx.fns[c]
            if len(t['args']) != g.argc:
                continue
            if j is None:
                j = copy.deepcopy(f.j)
                blocks = j['blocks']
                t = blocks[bb]['term']
            off_l = len(j['locals'])
            off_b = len(blocks)
            j['locals'].extend(copy.deepcopy(g.j['locals']))
            gblocks = copy.deepcopy(g.j['blocks'])
            at = t.get('at')
            for i, gb in enumerate(gblocks):
                for st in gb['stmts']:
                    _walk_places(st, lambda p: _shift_place(p, off_l))
                    st['inl'] = c
                gt = gb['term']
                _walk_places(gt, lambda p: _shift_place(p, off_l))
                gt['inl'] = c
                if gt['k'] == 'return':
                    ret_local = {'l': off_l, 'p': [], 't': g.j['locals'][0]['t']}
                    gb['stmts'].append({'k': 'assign', 'lhs': copy.deepcopy(t['dest']), 'rv': {'k': 'use', 'o': {'mv': ret_local}},
                                        'at': gt.get('at', at), 'exp': False, 'inl': c, 'ret': True})
                    gb['term'] = {'k': 'goto', 'target': t['target'], 'at': gt.get('at', at), 'exp': False, 'inl': c}
                else:
                    _shift_block_targets(gt, off_b)
                stack_of[off_b + i] = stack + (c,)
            # parameter passing
            for i, a in enumerate(t['args']):
                blocks[bb]['stmts'].append({'k': 'assign', 'lhs': {'l': off_l + 1 + i, 'p': [], 't': g.j['locals'][1 + i]['t']},
                                            'rv': {'k': 'use', 'o': copy.deepcopy(a)}, 'at': at, 'exp': False, 'inl': c, 'param': True})
            blocks[bb]['term'] = {'k': 'goto', 'target': off_b, 'at': at, 'exp': False, 'inl': c, 'was_call': c}
            blocks.extend(gblocks)
            inlined.append(c)
            splices.append((c, off_b, bb))
            changed = True
    if j is None:
        return f
    nf = Fn(f.name, j, f.types)
    nf.inlined = inlined
    nf.splices = splices
    return nf


_VOCAB = [None]


def rule_vocabulary():
    """every crate function name that appears as a string literal in the rule sources or tables: the functions some
    rule talks about.  A local function that no rule names is a helper and is looked through."""
    if _VOCAB[0] is None:
        import glob, os, re
        here = os.path.dirname(os.path.abspath(__file__))
        names = set()
        pat = re.compile(r"""['"]((?:<)?[a-z_][a-z_0-9]*::[^'"\n]*)['"]""")
        files = glob.glob(os.path.join(here, 'rules', '*.py')) + glob.glob(os.path.join(here, '*.py')) + \
            glob.glob(os.path.join(os.path.dirname(here), 'tables', '*'))
        for fp in files:
            try:
                txt = open(fp).read()
            except OSError:
                continue
            for m in pat.finditer(txt):
                names.add(m.group(1))
            for line in txt.split('\n'):
                if line.startswith('C08:'):
                    names.add(line.split(':', 1)[1].split(':call:')[0].split(':Overflow')[0].split(':panic:')[0].split(':BoundsCheck')[0])
        _VOCAB[0] = names
    return _VOCAB[0]


class View:
    """lazy cache of inlined views of functions under one transparency predicate"""

    def __init__(self, fx, vocabulary=(), depth=2, max_blocks=MAX_BLOCKS):
        self.fx = fx
        self.transparent = default_transparent(fx, set(vocabulary) | rule_vocabulary(), max_blocks)
        self.depth = depth
        self._c = {}

    def __call__(self, name_or_fn):
        f = name_or_fn if isinstance(name_or_fn, Fn) else self.fx.fns.get(name_or_fn)
        if f is None:
            return None
        if f.name not in self._c:
            self._c[f.name] = inline_fn(self.fx, f, self.transparent, self.depth)
        return self._c[f.name]

    def inlined_into(self, name):
        v = self(name)
        return list(getattr(v, 'inlined', []))
