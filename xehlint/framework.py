"""check driver: refresh facts from the repo's working tree, run the rules of
one property, subtract known findings by exact key, write evidence, print the
interface lines."""
import fcntl
import hashlib
import json
import os, re
import subprocess
import sys
import time

VERIF = os.path.dirname(os.path.dirname(os.path.abspath(__file__)))
REPO = os.environ.get('XEH_REPO', '/repo')
DRIVER_DIR = os.path.join(VERIF, 'driver')
DRIVER = os.path.join(DRIVER_DIR, 'target', 'release', 'xeh-facts')
KNOWN = os.path.join(VERIF, 'known_findings.txt')

CONFIGS = {
    # name: (cargo args, description)
    'dev': (['--lib', '--bins'], 'default features, dev profile (overflow checks on)'),
    'release': (['--lib', '--bins', '--release'], 'default features, release profile (overflow checks off)'),
    'embed': (['--lib', '--no-default-features', '--features', 'calc_limit,mmap'],
              'embedding configuration: no stdio/repl, dev profile'),
}


def sh(cmd, env=None, cwd=None, timeout=1800):
    p = subprocess.run(cmd, env=env, cwd=cwd, stdout=subprocess.PIPE, stderr=subprocess.STDOUT,
                       text=True, timeout=timeout)
    return p.returncode, p.stdout


def nightly_sysroot():
    rc, out = sh(['rustc', '+nightly', '--print', 'sysroot'])
    if rc != 0:
        raise RuntimeError('no nightly toolchain: ' + out)
    return out.strip()


def ensure_driver():
    src = os.path.join(DRIVER_DIR, 'src', 'main.rs')
    if os.path.exists(DRIVER) and os.path.getmtime(DRIVER) >= os.path.getmtime(src):
        return
    env = dict(os.environ, CARGO_NET_OFFLINE='true')
    rc, out = sh(['cargo', 'build', '--release', '--offline'], env=env, cwd=DRIVER_DIR)
    if rc != 0 or not os.path.exists(DRIVER):
        raise RuntimeError('driver build failed:\n' + out[-4000:])


def tree_hash(repo):
    h = hashlib.sha256()
    paths = []
    for root, dirs, files in os.walk(os.path.join(repo, 'src')):
        dirs.sort()
        for f in sorted(files):
            paths.append(os.path.join(root, f))
    for extra in ('Cargo.toml', 'Cargo.lock', 'build.rs'):
        p = os.path.join(repo, extra)
        if os.path.exists(p):
            paths.append(p)
    for p in paths:
        h.update(os.path.relpath(p, repo).encode())
        h.update(b'\0')
        with open(p, 'rb') as fh:
            h.update(fh.read())
        h.update(b'\0')
    with open(os.path.join(DRIVER_DIR, 'src', 'main.rs'), 'rb') as fh:
        h.update(fh.read())
    return h.hexdigest()


def facts_dir(cfg, repo=None):
    repo = repo or REPO
    tag = hashlib.sha1(os.path.abspath(repo).encode()).hexdigest()[:8]
    return os.path.join(VERIF, 'out', 'facts', '%s-%s' % (cfg, tag))


def refresh_facts(cfg='dev', repo=None):
    """returns (path of lib facts, tree hash). Fails closed (exception) if no
    fresh fact file could be produced."""
    repo = repo or REPO
    ensure_driver()
    fdir = facts_dir(cfg, repo)
    os.makedirs(fdir, exist_ok=True)
    tgt = os.path.join(VERIF, '.tgt', cfg + os.environ.get('XEH_TGT_SUFFIX', ''))   # shared by all repos: dependencies are compiled once
    os.makedirs(tgt, exist_ok=True)
    lock = open(os.path.join(fdir, '.lock'), 'w')
    fcntl.flock(lock, fcntl.LOCK_EX)
    try:
        th = tree_hash(repo)
        stamp = os.path.join(fdir, 'stamp')
        lib = os.path.join(fdir, 'xeh-lib.json')
        if os.path.exists(stamp) and os.path.exists(lib) and open(stamp).read().strip() == th:
            return lib, th
        # force cargo to re-run the primary package through the driver
        for prof in ('debug', 'release'):
            fp = os.path.join(tgt, prof, '.fingerprint')
            if os.path.isdir(fp):
                for d in os.listdir(fp):
                    if d.startswith('xeh-'):
                        subprocess.run(['rm', '-rf', os.path.join(fp, d)])
        for fn in os.listdir(fdir):
            if fn.endswith('.json'):
                os.unlink(os.path.join(fdir, fn))
        env = dict(os.environ)
        env.update({
            'LD_LIBRARY_PATH': nightly_sysroot() + '/lib',
            'RUSTC_BOOTSTRAP': '-1',
            'RUSTC_WRAPPER': DRIVER,
            'RUSTFLAGS': '-Awarnings',
            'CARGO_NET_OFFLINE': 'true',
            'CARGO_TARGET_DIR': tgt,
            'XEH_FACTS_DIR': fdir,
            'XEH_FACTS_TAG': cfg,
        })
        env.pop('RUSTC_WORKSPACE_WRAPPER', None)
        args = ['cargo', '+nightly', 'check', '--offline', '--manifest-path',
                os.path.join(repo, 'Cargo.toml')] + CONFIGS[cfg][0]
        t0 = time.time()
        rc, out = sh(args, env=env, cwd=repo)
        if rc != 0:
            raise BuildFailed('cargo check through the fact extractor failed (cfg=%s):\n%s' % (cfg, out[-6000:]))
        if not os.path.exists(lib) or os.path.getmtime(lib) < t0 - 1:
            raise RuntimeError('no fresh fact file produced for cfg=%s (cargo replayed a cached unit?)\n%s' % (cfg, out[-2000:]))
        with open(stamp, 'w') as fh:
            fh.write(th)
        return lib, th
    finally:
        fcntl.flock(lock, fcntl.LOCK_UN)
        lock.close()


class BuildFailed(Exception):
    pass


def run_witnesses():
    """compile-fail witnesses (/verif/witness, doctests with error codes; nightly).  Returns a list of
    (name, kind, ok) or None when the analysed repo is a scratch copy (the crate path-depends on /repo)."""
    if os.path.abspath(REPO) != '/repo':
        return None
    wdir = os.path.join(VERIF, 'witness')
    try:
        import shutil
        shutil.copy(os.path.join(REPO, 'Cargo.lock'), os.path.join(wdir, 'Cargo.lock'))
    except Exception:
        pass
    env = dict(os.environ, CARGO_NET_OFFLINE='true', CARGO_TARGET_DIR=os.path.join(VERIF, '.tgt', 'witness'))
    rc, out = sh(['cargo', '+nightly', 'test', '--doc', '--offline'], env=env, cwd=wdir, timeout=900)
    res = []
    import re
    for m in re.finditer(r'^test src/lib.rs - (\w+) \(line \d+\)( - compile fail)? \.\.\. (\w+)', out, re.M):
        res.append((m.group(1), 'compile_fail' if m.group(2) else 'twin', m.group(3) == 'ok'))
    if not res:
        raise RuntimeError('witness crate produced no doctest results:\n' + out[-3000:])
    return res


# ------------------------------------------------------------------ results
class Ob:
    """one obligation (rule instance)"""
    __slots__ = ('rule', 'key', 'ok', 'why', 'fn', 'at', 'nontrivial', 'detail', 'note')

    def __init__(self, rule, key, ok, why='', fn=None, at=None, nontrivial=True, detail=None, note=False):
        self.rule = rule
        self.key = key
        self.ok = ok
        self.why = why
        self.fn = fn
        self.at = at
        self.nontrivial = nontrivial
        self.detail = detail
        self.note = note

    def as_json(self):
        d = {'rule': self.rule, 'key': self.key, 'verdict': 'holds' if self.ok else 'VIOLATED',
             'fn': self.fn, 'at': abs_at(self.at), 'why': self.why}
        if self.detail is not None:
            d['detail'] = self.detail
        return d


def abs_at(at):
    if not at:
        return None
    if at.startswith('/'):
        return at
    return os.path.join(REPO, at)


class Report:
    def __init__(self, pid):
        self.pid = pid
        self.obs = []
        self.notes = []
        self.floors = []   # (name, got, floor)
        self.rules = {}    # rule id -> description
        self.extra = {}

    def rule(self, rid, text):
        self.rules[rid] = text

    def add(self, rule, key, ok, why='', fn=None, at=None, nontrivial=True, detail=None):
        # one obligation per key: MIR duplicates switches/blocks (drop elaboration); a failing
        # instance wins over a holding one with the same key
        for o in self.obs:
            if o.key == key:
                if o.ok and not ok:
                    o.ok, o.why, o.at = ok, why, at
                return
        self.obs.append(Ob(rule, key, ok, why, fn, at, nontrivial, detail))

    def note(self, text):
        self.notes.append(text)

    def floor(self, name, got, floor):
        self.floors.append((name, got, floor))

    def broken_floors(self):
        return [(n, g, f) for (n, g, f) in self.floors if g < f]


def load_known():
    """returns (findings: {(pid,key): text}, fixed: list)"""
    findings = {}
    fixed = []
    if not os.path.exists(KNOWN):
        return findings, fixed
    for line in open(KNOWN):
        line = line.rstrip('\n')
        if not line or line.startswith('#'):
            continue
        if line.startswith('finding:'):
            body = line[len('finding:'):].strip()
            head, _, text = body.partition(' :: ')
            # a key may contain blanks (`<cell::Cell as core::fmt::Debug>::fmt`): it runs to the end of the head
            m_ = re.match(r'property=(\S+)\s+key=(.*)$', head.strip())
            if m_:
                findings[(m_.group(1), m_.group(2).strip())] = text.strip()
        elif line.startswith('fixed:'):
            fixed.append(line)
    return findings, fixed


def finish(rep, tier, t0, facts_info, assumptions, explanation, technique_rule):
    """print interface lines, write evidence, return exit code"""
    pid = rep.pid
    scratch = os.environ.get('XEH_SCRATCH') == '1'
    out_dir = os.path.join(VERIF, 'out', ('scratch-' if scratch else '') + pid)
    ev_dir = os.path.join(VERIF, 'out', 'scratch-evidence') if scratch else os.path.join(VERIF, 'evidence')
    os.makedirs(out_dir, exist_ok=True)
    os.makedirs(ev_dir, exist_ok=True)
    findings, _fixed = load_known()
    violations = []
    known_hits = []
    for ob in rep.obs:
        if ob.ok:
            continue
        if (pid, ob.key) in findings:
            known_hits.append(ob)
        else:
            violations.append(ob)
    stale = [k for (p, k) in findings if p == pid and not any((not o.ok) and o.key == k for o in rep.obs)]
    broken = rep.broken_floors()

    for ob in known_hits:
        print('KNOWN-FINDING: property=%s key=%s :: %s' % (pid, ob.key, findings[(pid, ob.key)]))
    for k in stale:
        print('note: known finding no longer reported (stale entry): property=%s key=%s' % (pid, k))
    for n in rep.notes:
        print('note: ' + n)
    for i, ob in enumerate(violations):
        rp = os.path.join(out_dir, 'violation-%d.json' % i)
        with open(rp, 'w') as fh:
            json.dump({'property': pid, 'obligation': ob.as_json(), 'rule_text': rep.rules.get(ob.rule, ''),
                       'facts': facts_info}, fh, indent=1)
        print('VIOLATION property=%s replay=%s' % (pid, rp))
        print('  rule=%s %s' % (ob.rule, rep.rules.get(ob.rule, '').split('.')[0][:100]))
        print('  fn=%s' % ob.fn)
        print('  key=%s' % ob.key)
        print('  at %s (line is informational, not part of the key)' % abs_at(ob.at))
        print('  why: %s' % ob.why)

    total = len(rep.obs)
    held = sum(1 for o in rep.obs if o.ok)
    nontrivial_keys = {o.key for o in rep.obs if o.nontrivial}
    samples = []
    per_rule_seen = {}
    for o in rep.obs:
        c = per_rule_seen.get(o.rule, 0)
        if c < 3 or not o.ok:
            samples.append(o.as_json())
            per_rule_seen[o.rule] = c + 1
        if len(samples) >= 40:
            break
    per_rule = {}
    for o in rep.obs:
        r = per_rule.setdefault(o.rule, {'instances': 0, 'hold': 0})
        r['instances'] += 1
        r['hold'] += 1 if o.ok else 0
    ev = {
        'property_id': pid,
        'tier': tier,
        'seed': int(os.environ.get('VERIF_SEED', '0') or 0),
        'level': 'other',
        'coverage': {
            'explanation': explanation,
            'obligations': total,
            'discharged': held,
            'evaluations': max(total, 1),
            'distinct_nontrivial': len(nontrivial_keys),
            'rule': technique_rule,
            'samples': samples or [{'note': 'no instances'}],
            'rules': rep.rules,
            'per_rule': per_rule,
            'floors': [{'name': n, 'counted': g, 'floor': f} for (n, g, f) in rep.floors],
            'facts': facts_info,
            'known_findings': [o.key for o in known_hits],
            'notes': rep.notes,
            'exhaustive': True,
        },
        'assumptions': assumptions,
        'wall_s': round(time.time() - t0, 3),
        'violations': len(violations),
    }
    ev['coverage'].update(rep.extra)
    with open(os.path.join(ev_dir, pid + '.json'), 'w') as fh:
        json.dump(ev, fh, indent=1)

    print('%s: %d rule instances over %d rules, %d hold, %d known findings, %d violations (%.1fs)' %
          (pid, total, len(per_rule), held, len(known_hits), len(violations), time.time() - t0))
    if broken:
        for (n, g, f) in broken:
            print('BROKEN-CHECK: %s matched %d instances, below the floor %d confirmed by hand — the rule no longer sees '
                  'the code it was written for (anchor missing or renamed)' % (n, g, f))
        # A floor miss means the structure the property relies on is gone: fail closed.
        rp = os.path.join(out_dir, 'floor.json')
        with open(rp, 'w') as fh:
            json.dump({'property': pid, 'broken_floors': broken}, fh)
        print('VIOLATION property=%s replay=%s' % (pid, rp))
        return 1
    return 1 if violations else 0
