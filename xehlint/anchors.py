"""Rename robustness: anchors by fingerprint.

Rules name the functions their statements are about (fetch_and_run, push_data, context_close ...).  When a maintainer
renames one of them, behaviour is unchanged and so must the verdict be.  `tables/anchors.json` (tools/gen_anchors.py)
records, for every crate function some rule or table names, a structural fingerprint taken on the reviewed tree: module /
impl prefix, argument and return types, the external callees, the ADTs it switches on and builds, the State fields it
names, the string constants it mentions.  When a recorded name is missing from the facts, the unnamed function (one that
no rule names) of the same prefix and signature whose fingerprint is closest - and clearly closer than the runner-up - is
analysed under the recorded name: the fact text is rewritten before the rules see it, and the alias is reported in the
evidence.  No candidate, or an ambiguous one: the anchor stays missing and the check fails closed as before."""
import json
import os
import re

TABLE = os.path.join(os.path.dirname(os.path.dirname(os.path.abspath(__file__))), 'tables', 'anchors.json')
MIN_SCORE = 0.55
MIN_MARGIN = 0.12


def _walk(j, fn):
    if isinstance(j, dict):
        fn(j)
        for v in j.values():
            _walk(v, fn)
    elif isinstance(j, list):
        for v in j:
            _walk(v, fn)


def fingerprint(name, fj, types, local_names):
    """structural summary of one function's facts (names of crate-local callees are kept apart: they may be renamed too)"""
    ext, loc, adts, fields, strs = set(), set(), set(), set(), set()

    def visit(d):
        c = d.get('c') if isinstance(d.get('c'), dict) else None
        if d.get('k') in ('call', 'tailcall'):
            cc = d['func'].get('c') or {}
            n = cc.get('rfn') or cc.get('fn')
            if n:
                (loc if n in local_names else ext).add(n)
        if d.get('k') in ('discr', 'agg') and d.get('adt'):
            adts.add('%s:%s:%s' % (d['k'], d['adt'], d.get('variant', '')))
        if 'f' in d and isinstance(d.get('f'), str) and 'i' in d:
            fields.add(d['f'])
        if c and isinstance(c.get('str'), str):
            strs.add(c['str'][:40])
    _walk(fj['blocks'], visit)
    argc = fj['argc']
    sig = [types[l['t']] for l in fj['locals'][:argc + 1]]
    prefix = name.rsplit('::', 1)[0] if '::' in name else ''
    return {'prefix': prefix, 'sig': sig, 'ext': sorted(ext), 'loc': sorted(loc), 'adts': sorted(adts), 'fields': sorted(fields),
            'strs': sorted(strs), 'nblocks': len(fj['blocks'])}


def _jac(a, b):
    a, b = set(a), set(b)
    if not a and not b:
        return 1.0
    return len(a & b) / float(len(a | b))


def similarity(fa, fb, known_aliases=()):
    if fa['prefix'] != fb['prefix'] or fa['sig'] != fb['sig']:
        return 0.0
    loc_b = {known_aliases.get(x, x) if isinstance(known_aliases, dict) else x for x in fb['loc']}
    parts = [(_jac(fa['ext'], fb['ext']), 3), (_jac(fa['loc'], loc_b), 3), (_jac(fa['adts'], fb['adts']), 2),
             (_jac(fa['fields'], fb['fields']), 2), (_jac(fa['strs'], fb['strs']), 1)]
    s = sum(v * w for v, w in parts) / sum(w for _, w in parts)
    size = min(fa['nblocks'], fb['nblocks']) / float(max(fa['nblocks'], fb['nblocks'], 1))
    return 0.85 * s + 0.15 * size


def resolve(j, table=None):
    """{actual name: recorded name} for recorded anchors that are missing from the facts j"""
    if table is None:
        if not os.path.exists(TABLE):
            return {}
        table = json.load(open(TABLE))
    fns = j['fns']
    missing = [n for n in table if n not in fns and '{closure' not in n]
    if not missing:
        return {}
    names = set(fns)
    free = [n for n in fns if n not in table and '{closure' not in n]
    fps = {}
    aliases = {}
    for _round in range(2):
        progress = False
        inv = {v: k for k, v in aliases.items()}
        for m in missing:
            if m in inv:
                continue
            fa = table[m]
            scored = []
            for c in free:
                if c in aliases:
                    continue
                if c.rsplit('::', 1)[0] != fa['prefix']:
                    continue
                if c not in fps:
                    fps[c] = fingerprint(c, fns[c], j['types'], names)
                scored.append((similarity(fa, fps[c], aliases), c))
            scored.sort(reverse=True)
            if scored and scored[0][0] >= MIN_SCORE and (len(scored) == 1 or scored[0][0] - scored[1][0] >= MIN_MARGIN):
                aliases[scored[0][1]] = m
                progress = True
        if not progress:
            break
    return aliases


def rewrite(text, aliases):
    """rename functions in the raw fact text (JSON strings: the name itself and the closures defined inside it)"""
    for actual, recorded in sorted(aliases.items(), key=lambda kv: -len(kv[0])):
        text = text.replace('"%s"' % actual, '"%s"' % recorded)
        text = text.replace('"%s::{closure' % actual, '"%s::{closure' % recorded)
    return text
