"""A-WRITE: which State / Lex / Bitstr fields a function writes (DESIGN §2.2).

A write event is (a) an assignment whose left-hand place is (a projection of)
a tracked struct's field, directly or through a `&mut` pointer whose
provenance is such a field; (b) a call that receives a `&mut` pointer with such
provenance.  Provenance is propagated backwards with core.Fn.expr_of_*, through
calls that derive a reference from their first argument (index_mut, last_mut,
get_mut, unwrap, ok_or_else, `?`, deref_mut, iter_mut, top_frame ...)."""
from .core import callee_of, op_place, expr_walk, short

V = 'alloc::vec::Vec::<T, A>::'
SL = 'core::slice::<impl [T]>::'
OPT = 'core::option::Option::<T>::'
RV = 'rpds::vector::Vector::<T, P>::'
RM = 'rpds::map::red_black_tree_map::RedBlackTreeMap::<K, V, P>::'
GROW = {
    V + 'push': 'push', V + 'insert': 'insert', V + 'extend_from_slice': 'extend', V + 'resize': 'resize',
    V + 'resize_with': 'resize', V + 'append': 'append', V + 'extend_from_within': 'extend',
    V + 'push_within_capacity': 'push', V + 'splice': 'splice', V + 'set_len': 'set_len',
    V + 'push_mut': 'push', V + 'insert_mut': 'insert',
    'core::iter::traits::collect::Extend::extend': 'extend',
    '<alloc::vec::Vec<T, A> as core::iter::traits::collect::Extend<T>>::extend': 'extend',
    "<alloc::vec::Vec<T, A> as core::iter::traits::collect::Extend<&'a T>>::extend": 'extend',
    'core::iter::traits::collect::Extend::extend_one': 'extend',
    'alloc::string::String::push_str': 'push', 'alloc::string::String::push': 'push',
    'alloc::string::String::insert': 'insert', 'alloc::string::String::insert_str': 'insert',
    RV + 'push_back_mut': 'push', RM + 'insert_mut': 'insert',
}
SHRINK = {
    V + 'pop': 'pop', V + 'truncate': 'truncate', V + 'remove': 'remove', V + 'swap_remove': 'swap_remove',
    V + 'drain': 'drain', V + 'clear': 'clear', V + 'split_off': 'split_off', V + 'retain': 'retain',
    V + 'retain_mut': 'retain', V + 'dedup': 'dedup', V + 'pop_if': 'pop',
    'alloc::string::String::clear': 'clear', 'alloc::string::String::pop': 'pop',
    'alloc::string::String::truncate': 'truncate',
    RV + 'drop_last_mut': 'pop', RM + 'remove_mut': 'remove',
    OPT + 'take': 'take',
}
PERMUTE = {
    SL + 'swap': 'swap', SL + 'reverse': 'reverse', SL + 'sort': 'sort', 'alloc::slice::<impl [T]>::sort': 'sort',
    SL + 'rotate_left': 'rotate', SL + 'rotate_right': 'rotate', SL + 'sort_unstable': 'sort',
    'alloc::slice::<impl [T]>::sort_by': 'sort',
}
OVERWRITE = {
    'core::mem::swap': 'swap-with', 'core::mem::replace': 'replace', 'core::mem::take': 'take',
    SL + 'fill': 'fill', OPT + 'replace': 'replace', OPT + 'insert': 'replace',
    OPT + 'get_or_insert_with': 'replace', SL + 'copy_from_slice': 'fill', SL + 'clone_from_slice': 'fill',
    RV + 'set_mut': 'replace', 'core::ptr::write': 'replace',
}
# calls that turn a `&mut container` into a `&mut element` (result derives from arg 0)
DERIVE_MUT = {
    'core::ops::index::IndexMut::index_mut', '<alloc::vec::Vec<T, A> as core::ops::index::IndexMut<I>>::index_mut',
    SL + 'last_mut', SL + 'first_mut', SL + 'get_mut', SL + 'iter_mut', SL + 'split_at_mut',
    SL + 'split_last_mut', SL + 'split_first_mut', SL + 'get_unchecked_mut', SL + 'as_mut_ptr',
    'core::ops::deref::DerefMut::deref_mut', '<alloc::vec::Vec<T, A> as core::ops::deref::DerefMut>::deref_mut',
    OPT + 'as_mut', OPT + 'unwrap', OPT + 'expect', OPT + 'ok_or_else', OPT + 'ok_or', OPT + 'map',
    OPT + 'and_then',
    'core::result::Result::<T, E>::unwrap',
    '<core::result::Result<T, E> as core::ops::try_trait::Try>::branch',
    '<core::option::Option<T> as core::ops::try_trait::Try>::branch',
    V + 'as_mut_slice', V + 'as_mut_ptr', V + 'iter_mut', V + 'last_mut',
    '<rpds::vector::Vector<T, P> as core::ops::index::IndexMut<usize>>::index_mut', RV + 'get_mut',
    'core::slice::index::<impl core::ops::index::IndexMut<I> for [T]>::index_mut',
    'core::iter::traits::iterator::Iterator::rev', 'core::iter::traits::iterator::Iterator::find_map',
    "<core::slice::iter::IterMut<'a, T> as core::iter::traits::iterator::Iterator>::next",
    'core::iter::traits::collect::IntoIterator::into_iter',
    '<I as core::iter::traits::collect::IntoIterator>::into_iter',
    'core::iter::traits::iterator::Iterator::next',
    '<core::iter::adapters::rev::Rev<I> as core::iter::traits::iterator::Iterator>::find_map',
    '<core::iter::adapters::rev::Rev<I> as core::iter::traits::iterator::Iterator>::next',
}
# local accessors returning `&mut` into a State field (result derives from self)
LOCAL_DERIVE = {
    'state::State::top_frame': ('return_stack',),
    'state::State::top_function_flow': ('flow_stack',),
    'state::State::stdout': ('stdout',),
}


def classify_callee(c):
    if c in GROW:
        return 'grow:' + GROW[c]
    if c in SHRINK:
        return 'shrink:' + SHRINK[c]
    if c in PERMUTE:
        return 'permute:' + PERMUTE[c]
    if c in OVERWRITE:
        return 'overwrite:' + OVERWRITE[c]
    if c in DERIVE_MUT:
        return 'derive'
    return 'unknown:' + short(c)


def struct_fields(facts, adt):
    a = facts.adts.get(adt)
    if not a:
        return set()
    out = set()
    for v in a['variants']:
        for f in v['fields']:
            out.add(f['name'])
    return out


def _peel(ty):
    t = ty
    while t.startswith('&'):
        t = t[1:]
        if t.startswith('mut '):
            t = t[4:]
        if t.startswith("'"):
            t = t.split(' ', 1)[1] if ' ' in t else t
    return t


def root_path(f, e, tracked, depth=0, _shared=None, _suffix=()):
    """Walk an expression down to a tracked struct's field.
    tracked: {adt_name: set(fields)}.  Returns (adt, fields tuple, via list,
    shared) or None; `shared` is True when the chain passes through a shared
    borrow or a shared-deriving call (iter(), last(), get(), deref()): a later
    `&mut` then points at a derived local object (an iterator), not at the
    field's storage.  Nested projections (copies of `&mut State` held in
    temporaries or closure upvars) are flattened: the field names met on the
    way down are accumulated in `_suffix`."""
    via = []
    shared = [False] if _shared is None else _shared
    suffix = tuple(_suffix)
    while isinstance(e, tuple) and depth < 80:
        depth += 1
        tag = e[0]
        if tag in ('ref', 'rawptr'):
            if not e[1]:
                inner = e[2]
                if isinstance(inner, tuple) and inner[0] == 'proj' and any(
                        p != '*' and not p.isdigit() and not p.startswith('as ') for p in inner[2]):
                    shared[0] = True
            e = e[2]
        elif tag == 'cast':
            e = e[2]
        elif tag == 'proj':
            base = e[1]
            path = tuple(e[2]) + suffix
            r = _root_of_proj(f, base, list(path), tracked)
            if r is not None:
                return r[0], r[1], via, shared[0]
            suffix = path
            e = base
        elif tag == 'call':
            c = e[1]
            if c in LOCAL_DERIVE and e[2]:
                b = _base_adt(f, e[2][0])
                if b == 'state::State' and LOCAL_DERIVE[c][0] in tracked.get('state::State', ()):
                    return 'state::State', LOCAL_DERIVE[c], via + [c], shared[0]
                return None
            if c in DERIVE_MUT and e[2]:
                via.append(c)
                suffix = ()
                e = e[2][0]
            elif c in _DERIVE_SHARED and e[2]:
                via.append(c)
                shared[0] = True
                suffix = ()
                e = e[2][0]
            else:
                return None
        elif tag == 'phi':
            for x in e[1]:
                r = root_path(f, x, tracked, depth, shared, suffix)
                if r is not None:
                    return (r[0], r[1], via + r[2], r[3])
            return None
        elif tag in ('arg', 'undef', 'cycle'):
            if suffix:
                r = _root_of_proj(f, e, list(suffix), tracked)
                if r is not None:
                    return r[0], r[1], via, shared[0]
            return None
        else:
            return None
    return None


_DERIVE_SHARED = {
    'core::ops::index::Index::index', '<alloc::vec::Vec<T, A> as core::ops::index::Index<I>>::index',
    SL + 'last', SL + 'get', SL + 'iter', SL + 'first',
    'core::ops::deref::Deref::deref', '<alloc::vec::Vec<T, A> as core::ops::deref::Deref>::deref',
    OPT + 'as_ref', 'core::slice::index::<impl core::ops::index::Index<I> for [T]>::index',
}


def _base_adt(f, e):
    """adt name (peeled) of the value an expression denotes, if it is a plain
    argument / local of struct type"""
    # any depth of reborrowing (`&mut *&mut *self`, as produced when a method body is spliced into its caller)
    hops = 0
    while isinstance(e, tuple) and hops < 16:
        hops += 1
        if e[0] in ('ref', 'cast'):
            e = e[2]
        elif e[0] == 'proj' and all(p == '*' for p in e[2]):
            e = e[1]
        else:
            break
    if isinstance(e, tuple) and e[0] == 'arg':
        return f.locals[e[1]].get('adt')
    return None


def _root_of_proj(f, base, path, tracked):
    # strip derefs and closure upvar indices at the front
    names = [p for p in path if p != '*' and not p.startswith('as ') and not p.startswith('[')]
    b = base
    while isinstance(b, tuple) and b[0] in ('ref', 'cast'):
        b = b[2]
    adt = None
    if isinstance(b, tuple) and b[0] in ('arg', 'undef', 'cycle'):
        l = b[1]
        adt = f.locals[l].get('adt')
        ty = f.local_ty(l)
        if adt is None and 'closure' in ty:
            # closure environment: skip numeric upvar indices
            while names and names[0].isdigit():
                names.pop(0)
            for a, fs in tracked.items():
                if names and names[0] in fs:
                    adt = a
                    break
    if adt in tracked and names and names[0] in tracked[adt]:
        return adt, tuple(names)
    return None


def field_events(facts, f, tracked):
    """yield dicts: field (tuple), adt, how, callee, bb, idx, at, mut(bool)"""
    out = []
    for bb in sorted(f.reachable_blocks()):
        b = f.blocks[bb]
        for i, st in enumerate(b['stmts']):
            if st['k'] not in ('assign', 'setdiscr'):
                continue
            lhs = st['lhs']
            if lhs['p']:
                e = f.expr_of_place(lhs)
                r = root_path(f, e, tracked)
                if r is not None and not r[3]:
                    adt, fields, via, _sh = r
                    out.append({'adt': adt, 'field': fields, 'how': 'assign' + ('-via:' + short(via[-1]) if via else ''),
                                'callee': None, 'bb': bb, 'idx': i, 'at': st.get('at'), 'mut': True,
                                'stmt': st, 'elem': bool(via), 'via': via})
        t = b['term']
        if t['k'] == 'call':
            c = callee_of(t)
            for ai, a in enumerate(t['args']):
                p = op_place(a)
                if p is None:
                    continue
                ty = f.ty(p['t'])
                if not ty.startswith('&') and not ty.startswith('*'):
                    continue
                is_mut = ty.startswith('&mut') or ty.startswith('*mut')
                e = f.expr_of_operand(a)
                r = root_path(f, e, tracked)
                if r is None:
                    continue
                adt, fields, via, sh = r
                if sh:
                    is_mut = False
                cc = c or 'indirect'
                out.append({'adt': adt, 'field': fields, 'how': ('call:' + classify_callee(cc)) if is_mut else 'read-call',
                            'callee': cc, 'bb': bb, 'idx': len(b['stmts']), 'at': t.get('at'), 'mut': is_mut,
                            'argi': ai, 'term': t, 'elem': bool(via), 'via': via})
        elif t['k'] == 'drop':
            pass
    return out


def field_writes(facts, f, tracked):
    """mutating events only; 'derive' calls are dropped (their results are
    followed to the final write by provenance)"""
    ws = []
    for ev in field_events(facts, f, tracked):
        if not ev['mut']:
            continue
        if ev['how'] == 'call:derive':
            continue
        ws.append(ev)
    return ws


_cache = {}


def all_field_writes(facts, tracked_key, tracked):
    """fn name -> list of write events, for every function of the unit"""
    k = (id(facts), tracked_key)
    if k not in _cache:
        d = {}
        for n, f in facts.fns.items():
            w = field_writes(facts, f, tracked)
            if w:
                d[n] = w
        _cache[k] = d
    return _cache[k]


def state_tracked(facts):
    return {'state::State': struct_fields(facts, 'state::State')}
