"""C10 — a source that fails to build has no effect on anything submitted afterwards.

R1 every error exit of a build entry releases what the build acquired;
R2 a failed run is not resumed by the next compile+run; R3 the REPL does not
adopt a failed line as its snapshot."""
import re
from ..core import (callee_of, expr_walk, expr_str, return_defs, short, op_place, MissingAnchor, FROM_RESIDUAL)
from .. import awrite, inline
from ..pathq import (try_continue_block, bool_branch, blocks_reaching, blocks_after, exists_path_avoiding, edge_guards)

EXPLANATION = (
    "Acquire/release on all exits, decided on the MIR control-flow graph including every `?` edge. Build entries are found "
    "structurally (functions that call context_open and reach build0). R1: from the Ok edge of context_open, every path "
    "to a return that can carry an Err passes a call to a release function; a release function is one whose every path "
    "either (full release) restores State.ctx from a value popped from State.nested and truncates input, flow_stack, "
    "code, debug_map and dict to marks taken at build entry, or (built-but-failed-at-run) halts the program by setting "
    "ctx.ip to the end of the code; inside context_close every path from nested.pop() to a return assigns ctx. R2: the "
    "three-segment rule - a halt write (ctx.ip := code length) exists on the failing-run -> next-compile -> next-run "
    "protocol path, guarded only by the 'last error was a run-time error' flag which set_runtime_err_location sets on every "
    "failing step. R3: in repl::run_line the snapshot update is control-dependent on the line's result being Ok. "
    "Decides that nothing acquired by a failed build survives it; does not decide that the marks have the right values "
    "for observational identity.")
RULE_TEXT = ("instances = (build entry x error exit) paths, (release function x resource) obligations, context_close pop "
             "sites, protocol-segment halt writes, REPL snapshot call sites; non-trivial = needed a CFG path search or "
             "control-dependence query")
ASSUMPTIONS = [
    "rustc MIR / Instance resolution correct",
    "Vec::truncate / pop behave as documented",
    "heap cells allocated by a rejected source are unreachable garbage (their dictionary entries are truncated); not counted as an effect",
]

RESOURCES = {
    # field: mark that bounds the truncation (None: the mark is one of the values taken at build entry and passed in)
    'input': None, 'flow_stack': 'fs_len', 'code': 'cs_len', 'debug_map': 'cs_len', 'dict': 'di_len',
    # what build-time execution (meta blocks, immediate words) leaves on the run-time stacks
    'data_stack': None, 'return_stack': 'rs_len', 'loops': 'ls_len', 'special': 'ss_ptr', 'sources': None,
    # cells that `var` allocates while the source is built
    'heap': None,
    # what the meta blocks of the source logged (C02): the entries refer to code that is cut away
    'reverse_log': None,
}
CORE_RESOURCES = ('input', 'flow_stack', 'code', 'debug_map', 'dict')      # identify a release function
# State fields that code reachable from a build entry grows and that are deliberately not rolled back
GROWN_EXEMPT = {
    'stdout': 'captured output that was already produced',
    'nested': 'restored by popping (releases:nested)', 'ctx': 'restored from nested (releases:ctx)',
}


def _is_depth_plus_one(e):
    from ..zone import strip as zstrip
    e = zstrip(e)
    while isinstance(e, tuple) and e[0] == 'proj' and len(e[2]) == 1 and e[2][0] in (0, '0') and isinstance(e[1], tuple) and e[1][0] == 'bin':
        e = e[1]
    if not (isinstance(e, tuple) and e[0] == 'bin' and e[1] in ('Add', 'AddWithOverflow')):
        return False
    a, b = zstrip(e[2]), zstrip(e[3])
    one = lambda x: isinstance(x, tuple) and x[0] == 'const' and isinstance(x[1], dict) and x[1].get('v') == 1
    frm = lambda x: any(isinstance(y, tuple) and y[0] == 'arg' and y[1] >= 2 for y in expr_walk(x))
    return (one(b) and frm(a)) or (one(a) and frm(b))


def build_entries(fx, V):
    out = []
    for fn, f0 in fx.fns.items():
        if V.transparent(fn):
            continue          # a helper: seen through the functions that call it
        if 'state::State::context_open' not in fx.reachable_from([fn]) or fn == 'state::State::build0':
            continue
        f = V(fn)
        cs = {callee_of(t) for _, t in f.calls()}
        if 'state::State::context_open' in cs:
            # direct callers of build0 or its closure (helpers looked through)
            direct = 'state::State::build0' in cs or any(
                'state::State::build0' in {callee_of(t) for _, t in fx.fns[c].calls()}
                for c in fx.callgraph().get(fn, ()) if c in fx.fns and c.startswith(fn + '::{closure'))
            if direct:
                out.append(fn)
    return sorted(out)


def release_profile(fx, W, fn, memo=None):
    """per-function summary of releasing writes (transitive over local callees)"""
    memo = memo if memo is not None else {}
    if fn in memo:
        return memo[fn]
    memo[fn] = set()
    out = set()
    for w in W.get(fn, []):
        fld = w['field'][0]
        if fld in CORE_RESOURCES and w['how'].startswith('call:shrink'):
            out.add(fld)
        if fld == 'ctx' and len(w['field']) == 1 and w['how'] in ('assign', 'call:overwrite:swap-with', 'call:overwrite:replace'):
            out.add('ctx')
        if fld == 'nested' and w['how'].startswith('call:shrink'):
            out.add('nested')
    for c in fx.callgraph().get(fn, ()):  # local callees
        if c in fx.fns and c != fn:
            out |= release_profile(fx, W, c, memo)
    memo[fn] = out
    return out


def is_halt_write(f, w):
    """assignment to ctx.ip whose value derives from code_origin()/code.len()"""
    if w['field'][:2] != ('ctx', 'ip') or not w['how'].startswith('assign'):
        return False
    st = w.get('stmt')
    if st is None:
        return False
    e = f.expr_of_rvalue(st['rv'], 0, frozenset())
    for x in expr_walk(e):
        if isinstance(x, tuple) and x[0] == 'call' and x[1] in ('state::State::code_origin',):
            return True
        if isinstance(x, tuple) and x[0] == 'call' and x[1].endswith('::len') and 'code' in expr_str(x):
            return True
    return False


_IPSET = {}


def ip_setters(fx, W):
    """functions that assign ctx.ip from one of their arguments (set_ip): a call with code_origin() as that argument is a halt"""
    k = id(fx)
    if k not in _IPSET:
        out = set()
        for fn, ws in W.items():
            f = fx.fns.get(fn)
            for w in ws:
                if f is not None and w['field'][:2] == ('ctx', 'ip') and w['how'].startswith('assign') and w.get('stmt'):
                    e = f.expr_of_rvalue(w['stmt']['rv'], 0, frozenset())
                    if any(isinstance(x, tuple) and x[0] == 'arg' and x[1] >= 2 for x in expr_walk(e)) and not \
                            any(isinstance(x, tuple) and x[0] == 'bin' for x in expr_walk(e)):
                        out.add(fn)
        _IPSET[k] = out
    return _IPSET[k]


def _end_of_code(e):
    for x in expr_walk(e):
        if isinstance(x, tuple) and x[0] == 'call' and x[1] in ('state::State::code_origin',):
            return True
        if isinstance(x, tuple) and x[0] == 'call' and x[1].endswith('::len') and 'code' in expr_str(x):
            return True
    return False


def built_blocks(f):
    """blocks of a release function that lie behind the test `no context of this source is open any more` (State.nested is not
    deeper than the depth recorded in the entry mark): the source was built and has left its context, nothing is there to release"""
    from ..pathq import cmp_on_side
    out = set()
    for bb in f.reachable_blocks():
        for (_b2, e, side) in edge_guards(f, bb):
            c = cmp_on_side(e, side)
            if c is None:
                continue
            op, a, b = c
            sa, sb = expr_str(a, -12), expr_str(b, -12)
            a_n, b_n = 'nested' in sa and 'len' in sa, 'nested' in sb and 'len' in sb
            a_m = any(isinstance(x, tuple) and x[0] == 'arg' and x[1] >= 2 for x in expr_walk(a))
            b_m = any(isinstance(x, tuple) and x[0] == 'arg' and x[1] >= 2 for x in expr_walk(b))
            if (a_n and b_m and op in ('Le', 'Lt', 'Eq')) or (b_n and a_m and op in ('Ge', 'Gt', 'Eq')):
                out.add(bb)
    return out



def halt_sites(fx, W, f, ws):
    """[{bb, at}]: where f sets the ip to the end of the code - by assignment or through the logging setter"""
    out = [{'bb': w['bb'], 'at': w['at']} for w in ws if is_halt_write(f, w)]
    setters = ip_setters(fx, W)
    for bb, t in f.calls():
        if callee_of(t) in setters and any(_end_of_code(f.expr_of_operand(a)) for a in t['args'][1:]):
            out.append({'bb': bb, 'at': t.get('at')})
    if out:
        # `if ip != end { set_ip(end) }`: on the side where the test finds ip == end the program is halted already
        from ..pathq import cmp_of
        for bb in f.reachable_blocks():
            br = bool_branch(f, bb)
            c = cmp_of(br[0]) if br else None
            if not c or c[0] not in ('Eq', 'Ne'):
                continue
            sa, sb = expr_str(c[1], -10), expr_str(c[2], -10)
            isip = lambda t: 'State::ip(' in t or t.endswith('.ctx.ip')
            if (isip(sa) and _end_of_code(c[2])) or (isip(sb) and _end_of_code(c[1])):
                out.append({'bb': br[1] if c[0] == 'Eq' else br[2], 'at': out[0]['at']})
    return out


def drop_blocks(fx, W, f, ws, fld, _depth=0):
    """blocks where f empties the run-time stack `fld` down to its floor: a truncate, or a floored pop primitive called in a loop"""
    out = {x['bb'] for x in ws if x['field'][0] == fld and x['how'].startswith('call:shrink')}
    poppers = {fn for fn, ws2 in W.items() if any(x['field'][0] == fld and x['how'].startswith('call:shrink:pop') for x in ws2)}
    from ..pathq import natural_loops
    inloop = set()
    for h, body, tail in natural_loops(f):
        inloop |= set(body)
    for bb, t in f.calls():
        if callee_of(t) in poppers and bb in inloop:
            out.add(bb)
    # ... or a call of a helper that does (the splicing of helpers into a view is depth-bounded)
    if _depth < 2:
        for bb, t in f.calls():
            c = callee_of(t)
            g = fx.fns.get(c) if c and c.startswith('state::') and c not in poppers and c != f.name else None
            if g is not None and bb not in out:
                from .. import awrite as _aw
                if drop_blocks(fx, W, g, W.get(c, []), fld, _depth + 1):
                    out.add(bb)
    return out


def run(rep, facts, tier):
    fx = facts['dev']
    rep.rule('C10.R1', 'every error exit of a build entry releases what the build acquired (context, input, pending flows, code+debug map, dictionary)')
    rep.rule('C10.R2', 'a failed run is not resumed by the next compile+run: a halt write sits on the protocol path')
    rep.rule('C10.R3', 'the REPL does not adopt a failed line as its snapshot')
    tracked = awrite.state_tracked(fx)
    W = awrite.all_field_writes(fx, 'state', tracked)
    V = inline.View(fx)
    _wv = {}

    def Wv(fn):
        if fn not in _wv:
            _wv[fn] = awrite.field_writes(fx, V(fn), tracked) if V(fn) is not fx.fns.get(fn) else W.get(fn, [])
        return _wv[fn]
    entries = build_entries(fx, V)
    rep.extra['helpers_looked_through'] = {e: V.inlined_into(e) for e in entries + ['state::State::context_close'] if V.inlined_into(e)}
    rep.floor('C10 build entries', len(entries), 1)
    memo = {}
    full = set(CORE_RESOURCES) | {'ctx', 'nested'}
    release_fns = {fn for fn in fx.fns if full <= release_profile(fx, W, fn, memo)}
    # context_close on success is also a release of the context (it pops and restores)
    close = 'state::State::context_close'

    called_release = set()
    for fn in entries:
        f = V(fn)
        called_release |= {callee_of(t2) for _, t2 in f.calls() if callee_of(t2) in release_fns}
        opens = [(bb, t) for bb, t in f.calls() if callee_of(t) == 'state::State::context_open']
        for obb, t in opens:
            acq = try_continue_block(f, obb)
            if acq is None:
                acq = t.get('target')
            rel_blocks = {bb for bb, t2 in f.calls() if callee_of(t2) in release_fns}
            # blocks that are Ok-only: false edge of is_err(res) / true edge of is_ok(res) on the returned local
            okonly = set()
            for bb in f.reachable_blocks():
                br = bool_branch(f, bb)
                if br is None:
                    continue
                e, tbb, fbb = br
                if isinstance(e, tuple) and e[0] == 'call':
                    if e[1] == 'core::result::Result::<T, E>::is_err':
                        okonly.add(fbb)
                    elif e[1] == 'core::result::Result::<T, E>::is_ok':
                        okonly.add(tbb)
            rets = set(f.return_blocks())
            # Ok-forwarding tail: `_0 = context_close()` forwards context_close's own verdict (checked below)
            fwd_close = {bb for (bb, i, cls, d) in return_defs(f) if cls == 'forward' and d == close}
            avoid = rel_blocks | okonly | fwd_close
            p = exists_path_avoiding(f, acq, lambda b: b in rets, avoid) if acq not in avoid else None
            key = 'C10.R1:%s:error-exits-release' % fn
            if p is not None:
                # name the exit
                exit_desc = 'bb' + '->bb'.join(map(str, p[-6:]))
                calls_on = [short(callee_of(f.blocks[b]['term'])) for b in p if f.blocks[b]['term']['k'] == 'call' and callee_of(f.blocks[b]['term'])]
                rep.add('C10.R1', key, False,
                        'an error exit of %s returns without releasing the context / input / flows / code / dictionary the build '
                        'acquired: path %s (after %s)' % (short(fn), exit_desc, ', '.join(c for c in calls_on if 'branch' not in c and 'residual' not in c)[-120:]),
                        fn, f.at(p[-2] if len(p) > 1 else p[-1]))
            else:
                rep.add('C10.R1', key, True,
                        'every path from the Ok edge of context_open to a return passes %s on its error side'
                        % ', '.join(sorted(short(callee_of(f.blocks[b]['term'])) for b in rel_blocks)) if rel_blocks else
                        'no error exit after context_open', fn, f.at(obb))
            if fwd_close:
                rep.add('C10.R1', 'C10.R1:%s:forwards-context_close' % fn, False,
                        '%s returns context_close() directly: its Err (failed run / meta block) leaves input and flows behind' % short(fn),
                        fn, f.at(list(fwd_close)[0]))

    # release functions: each path is a full release or a halt
    n_rel = 0
    for rf in sorted(called_release):
        # the function a build entry calls on its error side, with its private helpers looked through
        f = V(rf)
        if rf in entries:
            continue
        n_rel += 1
        ws = Wv(rf)
        rets = set(f.return_blocks())
        built = built_blocks(f)
        halts = {h['bb'] for h in halt_sites(fx, W, f, ws)} | built
        for res, mark in sorted(RESOURCES.items()):
            sites = [w for w in ws if w['field'][0] == res and w['how'].startswith('call:shrink')]
            blocks = {w['bb'] for w in sites}
            if res == 'reverse_log' and sites:
                # the log is an Option: with recording off there is nothing to cut.  The place where the Option is opened for
                # writing is where the release happens or is found unnecessary
                blocks |= {ev['bb'] for ev in awrite.field_events(fx, f, {'state::State': {'reverse_log'}}) if ev['mut']}
            p = exists_path_avoiding(f, 0, lambda b: b in rets, blocks | halts)
            ok = p is None and bool(sites)
            why = 'every path through %s truncates State.%s (or is the path of a source that was built and has left its context)' % (short(rf), res)
            if not sites:
                why = '%s never shrinks State.%s' % (short(rf), res)
            elif p is not None:
                why = 'a path through %s (bb%s) does not release State.%s although a context of the rejected source may still be open' % (short(rf), '->bb'.join(map(str, p[:8])), res)
            # bound derives from the matching mark
            if ok and mark:
                good = False
                for w in sites:
                    args = w['term']['args'][1:]
                    s = ' '.join(expr_str(f.expr_of_operand(a)) for a in args)
                    if ('.' + mark) in s:
                        good = True
                if not good:
                    ok = False
                    why = 'State.%s is truncated to a bound that is not the build-entry mark ctx.%s' % (res, mark)
                else:
                    # the Context the mark is read from must be the one opened at build entry: taken from
                    # State.nested at the depth recorded in the mark argument (falling back to ctx when nothing deeper is open)
                    entry_ctx = False
                    for w in sites:
                        for a in w['term']['args'][1:]:
                            e = f.expr_of_operand(a)
                            txt = expr_str(e, -30)
                            if 'nested' in txt and any(isinstance(x, tuple) and x[0] == 'arg' and x[1] >= 2 for x in expr_walk(e)):
                                # ... selected by position: the element right above the entry depth (nested[depth + 1]), not the
                                # last or first of whatever is above it (the innermost open block has younger marks)
                                by_pos = any(isinstance(x, tuple) and x[0] == 'call' and (x[1].endswith('::get') or x[1].endswith('::index'))
                                             and len(x[2]) == 2 and 'nested' in expr_str(x[2][0], -8) and _is_depth_plus_one(x[2][1])
                                             for x in expr_walk(e))
                                calls = [x for x in expr_walk(e) if isinstance(x, tuple) and x[0] == 'call']
                                tail = any(x[1].rsplit('::', 1)[-1] in ('split_off', 'drain') and len(x[2]) == 2 and 'nested' in expr_str(x[2][0], -8)
                                           and any(_is_depth_plus_one(y) for y in expr_walk(x[2][1]) if isinstance(y, tuple)) for x in calls)
                                head_of_tail = tail and any(x[1].rsplit('::', 1)[-1] in ('first', 'next') for x in calls)
                                wrong_end = [x[1].rsplit('::', 1)[-1] for x in calls if x[1].rsplit('::', 1)[-1] in ('pop', 'last', 'last_mut', 'next_back')
                                             and x[2] and 'nested' in expr_str(x[2][0], -12)]
                                if (by_pos or head_of_tail) and not wrong_end:
                                    entry_ctx = True
                    if not entry_ctx:
                        ok = False
                        why = ('State.%s is truncated to ctx.%s of the CURRENT context, not of the context opened at build entry: a failure '
                               'inside an open meta block keeps everything the rejected source built before the `#(`' % (res, mark))
            if ok and not mark:
                good = False
                for w in sites:
                    args = w['term']['args'][1:]
                    for a in args:
                        e = f.expr_of_operand(a)
                        if any(isinstance(x, tuple) and x[0] == 'arg' for x in expr_walk(e)):
                            good = True
                if not good:
                    ok = False
                    why = 'State.%s is truncated to a bound that does not come from the mark taken at build entry' % res
                else:
                    # ... and it is the mark itself, not something computed from it that can lie above it (`keep = mark; for .. { keep
                    # = i + 1 }`): whatever is younger than the build entry goes
                    for w in sites:
                        for a in w['term']['args'][1:]:
                            e = f.expr_of_operand(a)
                            if not any(isinstance(x, tuple) and x[0] == 'arg' for x in expr_walk(e)):
                                continue
                            grown = [x for x in expr_walk(e) if isinstance(x, tuple) and x and
                                     (x[0] == 'bin' and x[1] in ('Add', 'AddWithOverflow', 'Mul', 'MulWithOverflow') or
                                      x[0] == 'call' and x[1].rsplit('::', 1)[-1] in ('max', 'saturating_add', 'wrapping_add', 'checked_add'))]
                            if grown:
                                ok = False
                                why = ('State.%s is truncated to a bound computed from the entry mark that can lie above it (%s): something '
                                       'registered by the rejected source survives the roll-back' % (res, expr_str(grown[0], -6)[:60]))
            rep.add('C10.R1', 'C10.R1:%s:releases:%s' % (rf, res), ok, why, rf, sites[0]['at'] if sites else f.j['span'])
        # ctx restore from nested
        ctxw = [w for w in ws if w['field'] == ('ctx',)]
        ok = False
        why = '%s never assigns State.ctx' % short(rf)
        for w in ctxw:
            st = w.get('stmt')
            if st is not None:
                e = f.expr_of_rvalue(st['rv'], 0, frozenset())
                if any(isinstance(x, tuple) and x[0] == 'call' and x[1].endswith('Vec::<T, A>::pop') and 'nested' in expr_str(x) for x in expr_walk(e)):
                    ok = True
                    why = 'State.ctx is restored from the context popped off State.nested'
                else:
                    why = 'State.ctx is assigned from %s, not from the saved context on State.nested' % expr_str(e)[:60]
        blocks = {w['bb'] for w in ctxw}
        p = exists_path_avoiding(f, 0, lambda b: b in rets, blocks | halts)
        if ok and p is not None:
            # popping may legitimately find nothing (if let Some); accept when the skipped path is the None arm of the pop
            none_ok = all(f.blocks[b]['term']['k'] != 'call' or callee_of(f.blocks[b]['term']) != 'state::State::context_open' for b in p)
            pops = [bb for bb, t in f.calls() if callee_of(t) and callee_of(t).endswith('Vec::<T, A>::pop') and 'nested' in expr_str(f.expr_of_operand(t['args'][0]))]
            if not pops or not all(any(f.dominates(pb, b) for b in blocks) for pb in pops):
                ok = False
                why = 'a path through %s returns without restoring State.ctx' % short(rf)
        rep.add('C10.R1', 'C10.R1:%s:releases:ctx' % rf, ok, why, rf, ctxw[0]['at'] if ctxw else f.j['span'])
        # nested truncated to the entry depth
        nw = [w for w in ws if w['field'][0] == 'nested' and w['how'].startswith('call:shrink')]
        rep.add('C10.R1', 'C10.R1:%s:releases:nested' % rf, bool(nw),
                'contexts opened since build entry are popped' if nw else '%s leaves State.nested alone' % short(rf), rf,
                nw[0]['at'] if nw else f.j['span'])
        # a rejected build is not a failed run: the flag that makes the next compile halt must be reset
        lw = [w for w in ws if w['field'][0] == 'last_error']
        clears = False
        for w in lw:
            if w['how'].startswith('assign') and w.get('stmt') is not None:
                rvs = expr_str(f.expr_of_rvalue(w['stmt']['rv'], 0, frozenset()), -10)
                lhs_fields = [x.get('f') for x in w['stmt']['lhs']['p'] if isinstance(x, dict)]
                if ('runtime' in lhs_fields or w['field'][-1] == 'runtime') and rvs.strip() in ('0', 'false') or 'None' in rvs:
                    clears = True
            if w['how'].startswith('call:shrink:take') or w['how'].startswith('call:overwrite'):
                clears = True
        rep.add('C10.R2', 'C10.R2:%s:clears-failed-run-flag' % rf, clears,
                'the full-release path resets last_error.runtime: a build rejected by a build-time execution failure is not mistaken for a failed run'
                if clears else '%s leaves last_error.runtime set: after a build rejected by a failing meta block / immediate word the next compile '
                'halts pending, healthy code' % short(rf), rf, lw[0]['at'] if lw else f.j['span'])
        # a source that was built and failed while running is not rolled back: it is left as compile + run leaves it (stopped at
        # the failing instruction, or halted); the next source halts it (C10.R2 below)
        rep.add('C10.R2', 'C10.R2:%s:built-source-is-not-rolled-back' % rf, bool(halts),
                'the path of a source that has left its context (nested depth back at the entry depth) skips the roll-back' if halts else
                '%s rolls back every failing source, also one that was built and failed while running: its results and definitions are '
                'discarded where compile + run keeps them' % short(rf), rf, f.j['span'])
    rep.floor('C10 release functions', n_rel, 1)

    # everything a build can grow is either released or deliberately kept: State fields with a growing write in code reachable
    # from a build entry (the words run by meta blocks and immediate words included)
    from ..core import runtime_targets, immediate_targets
    extra = {'state::State::fetch_and_run': runtime_targets(fx), 'state::State::run_immediate': immediate_targets(fx)}
    breach = fx.reachable_from(entries, extra_edges=extra)
    grown = {}
    for fn in breach:
        for w in W.get(fn, []):
            if w['how'].startswith('call:grow') and not w.get('elem'):
                grown.setdefault(w['field'][0], fn)
    rep.floor('C10 State fields grown at build time', len(grown), 8)
    for fld, fn in sorted(grown.items()):
        ok = fld in RESOURCES or fld in GROWN_EXEMPT
        rep.add('C10.R1', 'C10.R1:grown-at-build-time:%s' % fld, ok,
                ('released by the release function' if fld in RESOURCES else 'kept on purpose: ' + GROWN_EXEMPT.get(fld, '')) if ok else
                'State.%s grows while a source is built (e.g. in %s) and no release function cuts it back: a rejected source leaves it behind'
                % (fld, short(fn)), fn, None, nontrivial=False)
    # in-place changes cannot be undone by cutting back to a mark: an element of code / dict may be overwritten at build time only
    # at an index that belongs to this build (taken from a pending flow of the definition under construction / an origin of
    # this build), never at an index found by searching the whole container
    n_ow = 0
    for fn in sorted(breach):
        f = fx.fns.get(fn)
        if f is None:
            continue
        if not any(w['field'][0] in ('dict', 'code') and w.get('elem') and w['how'].startswith('assign') for w in W.get(fn, [])):
            continue
        f = inline.thread_fn(f)       # `let own = if c { Some(i) } else { None }; match own {..}` reads as the nested test it stands for
        for w in awrite.field_writes(fx, f, tracked):
            if w['field'][0] not in ('dict', 'code') or not w.get('elem') or not w['how'].startswith('assign'):
                continue
            n_ow += 1
            idx_txt = expr_str(f.expr_of_place(w['stmt']['lhs']), -40)
            searched = 'dict_pos' in idx_txt or 'rposition' in idx_txt or '::position' in idx_txt or 'dict_find' in idx_txt
            from_flow = 'FunctionFlow' in idx_txt or 'top_function_flow' in idx_txt or 'pop_flow' in idx_txt or 'arg' in idx_txt.split('index_mut')[-1][:40]
            guarded = False
            if searched:
                # accepted when the overwrite is confined to entries of the current context: index >= ctx.di_len on every path
                from .c08 import guard_facts
                from ..zone import strip as zstrip
                for (op, a, b) in guard_facts(f, w['bb']):
                    sa, sb = expr_str(zstrip(a), -20), expr_str(zstrip(b), -20)
                    # the mark of the CURRENT context and nothing else: the mark of the outermost one is 0 for a top-level source
                    cur = lambda t: re.fullmatch(r'\(\*arg\d+\)\.ctx\.di_len', t) is not None
                    if op in ('Ge', 'Gt') and 'dict_pos' in sa and cur(sb) or op in ('Le', 'Lt') and cur(sa) and 'dict_pos' in sb:
                        guarded = True
            ok = not searched or guarded
            rep.add('C10.R1', 'C10.R1:in-place-overwrite:%s:%s' % (fn, w['field'][0]), ok,
                    ('the overwritten entry was made by this build (index from its own pending definition / origin)' if not searched else
                     'an entry found by name is overwritten only if it lies above the context mark (index >= ctx.di_len)') if ok else
                    '%s overwrites an existing %s entry found by searching the whole container: the change reaches entries made by earlier '
                    'sources and survives the rejection of this one (`#( 1 const A #)` then the rejected `#( 2 const A #) bogus` leaves A = 2)'
                    % (short(fn), w['field'][0]), fn, w['at'])
    rep.floor('C10 in-place overwrites of code / dict at build time', n_ow, 3)

    # the step function patches an instruction of OLDER code in place (the `late` stub binds itself on its first call).  Code runs
    # while a source is read - immediate words, meta blocks - and what it finds in the dictionary then may belong to a source that
    # is rejected afterwards; the roll-back cannot take a patch back.  A patch for good happens only when no source is being read
    # (any other patch is put back before the step returns)
    from .c11 import runtime_patch_sites
    from ..pathq import cmp_on_side
    sf, psites, restores = runtime_patch_sites(fx, V, tracked)
    srets = set(sf.return_blocks())
    n_perm = 0
    for bb, at, how in psites:
        if bb in restores or (restores and exists_path_avoiding(sf, bb, lambda b: b in srets, restores) is None):
            continue
        n_perm += 1
        idle = False
        for (_b2, e, side) in edge_guards(sf, bb):
            txt = expr_str(e, -14)
            if isinstance(e, tuple) and e[0] == 'call' and e[1].endswith('::is_empty') and '.input' in txt and side:
                idle = True
            c = cmp_on_side(e, side)
            if c and c[0] == 'Eq' and '.input' in txt and 'len' in txt and any(expr_str(x, -4) == '0' for x in (c[1], c[2])):
                idle = True
        rep.add('C10.R1', 'C10.R1:run-time-code-patch:%s:only-when-no-source-is-being-read' % how, idle,
                'the stub binds itself for good only behind `input.is_empty()`' if idle else
                'the step function patches an instruction for good (%s) also while a source is being read: `late v : getv v ;`, then the '
                'rejected `7 var v : imm immediate getv drop ; imm zz` leaves getv bound to a variable of the rejected source - the cell the '
                'roll-back gave back' % how, 'state::State::fetch_and_run', at)
    rep.floor('C10.R1 permanent run-time patches of an instruction', n_perm, 1)

    # a word that sets a State field which no roll-back restores (a flag such as "the REPL is about to stop") does so after its
    # last step that can fail with `?`: otherwise a word that fails - and with it the source, which is rejected - has had an effect
    n_flag = 0
    for fn in sorted(breach):
        f = fx.fns.get(fn)
        if f is None:
            continue
        for w in W.get(fn, []):
            if w['how'] != 'assign' or w.get('elem') or len(w['field']) != 1 or w['field'][0] in RESOURCES:
                continue
            n_flag += 1
            after = blocks_after(f, w['bb']) | {w['bb']}
            q = [b for b in after if f.blocks[b]['term']['k'] == 'call' and callee_of(f.blocks[b]['term']) in FROM_RESIDUAL]
            rep.add('C10.R1', 'C10.R1:written-before-refusal:%s:%s' % (fn, w['field'][0]), not q,
                    'State.%s is assigned after the last `?` of %s' % (w['field'][0], short(fn)) if not q else
                    '%s assigns State.%s and can still fail with `?` afterwards (%s): the rejected source has had an effect that no '
                    'roll-back takes back - `#( exit #)` fails with a stack underflow and the REPL quits all the same'
                    % (short(fn), w['field'][0], f.at(q[0])), fn, w['at'], nontrivial=False)
    rep.floor('C10.R1 plain State field assignments reachable from a build entry', n_flag, 5)

    # context_close: every path from nested.pop() to return assigns ctx
    fx.need(close)
    cf = V(close)
    pops = [w for w in Wv(close) if w['field'][0] == 'nested' and w['how'].startswith('call:shrink')]
    ctxw = {w['bb'] for w in Wv(close) if w['field'] == ('ctx',)}
    rets = set(cf.return_blocks())
    for w in pops:
        p = exists_path_avoiding(cf, w['bb'], lambda b: b in rets, ctxw)
        rep.add('C10.R1', 'C10.R1:context_close:pop-then-restore', p is None,
                'every path from nested.pop() to a return assigns State.ctx (the popped context is never dropped)' if p is None else
                'context_close pops the saved context and can return (bb%s) without restoring State.ctx: mode and stack base are lost'
                % '->bb'.join(map(str, p[:8])), close, w['at'])
    rep.floor('C10 context_close pop sites', len(pops), 1)

    # cutting back to marks undoes what the BUILDER did.  Code of the program that runs while a source is still being read can
    # do anything to the live state (pop the data stack, store into a variable, print): it may run only where it is sealed (a
    # meta context: C11) or after the source has been accepted (the run that closes an Eval context)
    from .. import stepfx
    from .c11 import guards_of
    RUN = 'state::State::run'
    on_build_path = fx.reachable_from(['state::State::build1']) | {'state::State::build1'}
    n_run = 0
    for caller in sorted(stepfx.callers_seen_through(fx, V, RUN)):
        base = caller.split('::{closure')[0]
        if base not in on_build_path:
            continue
        f = V(caller)
        for bb, t in f.calls():
            if callee_of(t) != RUN:
                continue
            n_run += 1
            moded = any(isinstance(e, tuple) and e[0] == 'call' and 'cmp::PartialEq' in e[1] and 'ctx.mode' in expr_str(e, -10) and side == e[1].endswith('::eq')
                        and ('ContextMode::MetaEval' in repr(e) or 'ContextMode::Eval' in repr(e)) for (_, e, side) in guards_of(f, bb))
            rep.add('C10.R1', 'C10.R1:build-time-execution-is-sealed:%s' % caller, moded,
                    'run() under a test of the context mode: a sealed meta block, or the run of an accepted source' if moded else
                    '%s runs program code in the building context while the source is still being read: what that code does to the data stack, '
                    'variables and output is not undone when the source is rejected afterwards (`1 2`, `: eat immediate drop ;`, then the rejected '
                    '`eat zz` leaves [1])' % short(caller), caller, t.get('at'))
    rep.floor('C10.R1 calls of run() on the build path', n_run, 2)

    check_r2(rep, fx, W, V, Wv)
    check_r3(rep, fx, V)


def check_r2(rep, fx, W, V, Wv):
    """halt write on the protocol path: failing run -> compile -> run"""
    segs = {
        'i-run-error-exit': ['state::State::run', 'state::State::next', 'state::State::set_runtime_err_location'],
        'ii-compile-entry': ['state::State::compile_xstr', 'state::State::build_from_source'],
        'iii-run-entry': ['state::State::run'],
    }
    found = []
    # segment ii: functions reachable from compile_xstr before context_open... use the build entries' pre-open region
    cx = fx.need('state::State::compile_xstr')
    reach = fx.reachable_from(['state::State::compile_xstr'], stop={'state::State::context_open', 'state::State::build0', 'state::State::context_close',
                                                                      'state::State::intern_source'})
    for fn in sorted(reach):
        if fn not in fx.fns or V.transparent(fn):
            continue      # helpers are seen through their callers, guards included
        f = V(fn)
        for w in halt_sites(fx, W, f, Wv(fn)):
            if True:
                # guards: branch conditions this write is control dependent on
                guards = []
                dom = f.dominators()
                for bb in f.reachable_blocks():
                    br = bool_branch(f, bb)
                    if br is None:
                        continue
                    e, tbb, fbb = br
                    if (tbb in dom.get(w['bb'], ())) != (fbb in dom.get(w['bb'], ())):
                        guards.append(expr_str(e))
                found.append((fn, w, guards))
    # the direct sites in run/next error path
    for fn in ('state::State::run', 'state::State::next'):
        f = fx.need(fn)
        for w in halt_sites(fx, W, f, W.get(fn, [])):
            found.append((fn, w, []))
    if not found:
        rep.add('C10.R2', 'C10.R2:protocol:no-halt-write', False,
                'neither the failing run, nor the next compile, nor the next run sets ctx.ip past the failed program: a REPL line '
                'after `1 0 /` re-executes the division', 'state::State::compile_xstr', cx.j['span'])
        return
    # the failed program is dropped as a whole: where the next source halts it, its loop records, call frames and builder marks
    # go too - compile + run executes in the base context, where leftovers would be visible (`I` after a failed `do` loop)
    for fn, w, guards in found:
        if fn in ('state::State::run', 'state::State::next'):
            continue
        f = V(fn)
        ws = Wv(fn)
        rets = set(f.return_blocks())
        missing = []
        for fld in ('loops', 'return_stack', 'special'):
            sb = drop_blocks(fx, W, f, ws, fld)
            ok_f = bool(sb) and (any(f.dominates(b, w['bb']) for b in sb) or exists_path_avoiding(f, w['bb'], lambda b: b in rets, sb) is None)
            if not ok_f:
                missing.append(fld)
        if fn != 'state::State::build_abort':
            rep.add('C10.R2', 'C10.R2:%s:halt-drops-run-time-stacks' % fn, not missing,
                    'the halted program\'s loop records, frames and builder marks are cut back together with the halt' if not missing else
                    '%s halts the failed program but keeps its %s: a later source compiled and run in the base context sees them '
                    '(after `3 0 do 1 0 / loop` fails, compile+run of `I` pushes 0 instead of failing)' % (short(fn), ', '.join(missing)), fn, w['at'])
    for fn, w, guards in found:
        # tests that belong to the halt itself (drain the stacks with the floored pops until they fail; set the ip if
        # anything changed or it is not at the end yet) are not conditions ON the halt
        pops_ = sorted({fn_ for fn_, ws_ in W.items() if any(x['field'][0] in ('loops', 'return_stack', 'special') and
                                                             x['how'].startswith('call:shrink:pop') for x in ws_)})
        own = lambda g: any(p_ in g for p_ in pops_) or re.fullmatch(r'phi\((0|1|true|false) \| (0|1|true|false)\)', g) is not None \
            or ('State::ip(' in g and 'code' in g) or 'Underflow' in g
        okg = all(('last_error' in g or 'nested' in g or 'runtime' in g or own(g)) for g in guards)
        rep.add('C10.R2', 'C10.R2:%s:halt-before-compile' % fn, okg,
                'compile entry halts a program whose last step failed at run time (guards: %s)' % (guards or ['unconditional']) if okg else
                'the halt write in %s is guarded by %s, not by the failed-run flag' % (short(fn), guards), fn, w['at'])
    # the flag is set on every failing step: run and next error paths call set_runtime_err_location, which stores runtime: true
    fx.need('state::State::set_runtime_err_location')
    sre = V('state::State::set_runtime_err_location')
    flag_true = False
    for bb in sre.reachable_blocks():
        for st in sre.blocks[bb]['stmts']:
            if st['k'] == 'assign' and st['rv']['k'] == 'agg' and st['rv'].get('adt') == 'state::ErrorContext':
                names = st['rv'].get('fnames', [])
                if 'runtime' in names:
                    e = sre.expr_of_operand(st['rv']['fields'][names.index('runtime')])
                    while isinstance(e, tuple) and e[0] in ('ref', 'cast'):
                        e = e[2]
                    flag_true = isinstance(e, tuple) and e[0] == 'const' and e[1].get('v') == 1
    rep.add('C10.R2', 'C10.R2:set_runtime_err_location:marks-runtime', flag_true,
            'a failing step records runtime: true' if flag_true else 'set_runtime_err_location does not mark the error as a run-time error',
            sre.name, sre.j['span'])
    from .. import stepfx
    for fn in ('state::State::run', 'state::State::next'):
        fx.need(fn)
        f = V(fn)
        recorded, prop, how = stepfx.step_error_recorded(fx, f)
        rep.add('C10.R2', 'C10.R2:%s:error-exit-marks' % fn, recorded,
                'every Err of fetch_and_run passes the location/flag recorder (%s)' % how if recorded else
                '%s does not record a failing step' % short(fn), fn, f.j['span'])


def check_r3(rep, fx, V):
    if fx.fns.get('repl::run_line') is None:
        raise MissingAnchor('repl::run_line (stdio feature off?)')
    f = V('repl::run_line')
    ups = [(bb, t) for bb, t in f.calls() if callee_of(t) == 'repl::ReplState::update_xstate']
    rep.floor('C10.R3 update_xstate call sites in run_line', len(ups), 1)
    for bb, t in ups:
        ok = False
        why = 'update_xstate() runs whatever the result of the line was: a rejected line becomes the rollback target'
        dom = f.dominators()
        for b2 in f.reachable_blocks():
            br = bool_branch(f, b2)
            if br is None:
                continue
            e, tbb, fbb = br
            if isinstance(e, tuple) and e[0] == 'call' and e[1] in ('core::result::Result::<T, E>::is_ok',):
                if tbb in dom.get(bb, ()) and len(f.pred(tbb)) == 1:
                    ok = True
                    why = 'the snapshot update is control-dependent on res.is_ok()'
            if isinstance(e, tuple) and e[0] == 'call' and e[1] in ('core::result::Result::<T, E>::is_err',):
                if fbb in dom.get(bb, ()) and len(f.pred(fbb)) == 1:
                    ok = True
                    why = 'the snapshot update is control-dependent on !res.is_err()'
        rep.add('C10.R3', 'C10.R3:repl::run_line:update-only-on-ok', ok, why, f.name, t.get('at'))

# as-built addendum
EXPLANATION += " As built (DESIGN 9.2): As built the resources include the source registry, the heap and the reverse log; in-place overwrites of code/dict stay above the mark of the current context; the roll-back is bounded by the context right above the entry depth; program code runs at build time only sealed or after acceptance (user-defined immediate words: known finding); a halted program's run-time stacks are dropped. A roll-back bound taken from the entry mark is the mark itself; a source that was built and failed while running is not rolled back; the step function patches an instruction for good only when no source is being read; a State field no roll-back restores is written after the word's last `?`."
