"""C03 — a cloned interpreter is an independent snapshot.

R1 sharing-edge inventory of State's type graph; R2 no `&mut` into a shared
pointee except the copy-on-write point; R3 host objects; R4 snapshot
discipline; R5 determinism sources / global state; R6 unsafe inventory."""
from ..core import callee_of, expr_walk, expr_str, short, op_place, runtime_targets, immediate_targets, MissingAnchor
from .. import awrite

EXPLANATION = (
    "Isolation of State::clone is an aliasing property, which Rust's types expose. R1 walks the field-type graph from "
    "state::State (type-checked ADT facts) and lists every node through which a clone can share storage with the original: "
    "reference-counted pointers, interior-mutable cells, raw pointers, 'static borrows, function pointers; each must be in the "
    "reviewed inventory (Rc<Cow<[u8]>> of Bitstr - guarded by R2, Rc<WithTag> / Rc<Cell> - never mutated, ArcStr/Substr, "
    "rpds persistent containers, fn pointers, Rc<RefCell<dyn Any>> host objects - R3). R2: every call in the crate that can "
    "yield a `&mut`/raw pointer into a shared pointee (Rc::get_mut/make_mut/as_ptr/into_raw/from_raw/try_unwrap/"
    "get_mut_unchecked, Cow::to_mut, RefCell::borrow_mut/try_borrow_mut/as_ptr, UnsafeCell::get, from_raw_parts, transmute) and "
    "every raw-pointer creation is in its allowed function: make_mut+to_mut only in Bitstr::data_mut (clones when shared - the "
    "COW point, which must actually go through make_mut), strong_count only in detach. R3: host-object mutation sites "
    "(known by construction, listed findings). R4: REPL/C-API snapshots are direct results of <State as Clone>::clone and "
    "ReplState.xs is replaced only by clones / popped snapshots. R5: no static mut / thread_local / lazy global in the crate; "
    "randomness, clocks, env only in the excluded words. R6: unsafe blocks / unsafe fns are exactly the reviewed ones. With "
    "rpds/arcstr/std as trusted base this is sufficient for: no write through one State is observable through a clone "
    "(except via R3 sites). Value-level 'same results' follows for a deterministic interpreter (R5); it is not measured.")
RULE_TEXT = ("instances = sharing nodes of the State type graph, alias-producing call sites, host-object users, snapshot "
             "producers, nondeterminism sources, unsafe items; non-trivial = type-graph walk or provenance")
ASSUMPTIONS = ["rustc type information is correct", "rpds 1.0 containers are persistent (structural sharing with copy-on-write nodes)",
               "arcstr strings are immutable", "Rc::make_mut clones when the pointee is shared (std contract)"]

SHARE_ADTS = {
    'alloc::rc::Rc': 'Rc', 'alloc::sync::Arc': 'Arc', 'alloc::rc::Weak': 'Weak', 'core::cell::RefCell': 'RefCell',
    'core::cell::Cell': 'Cell', 'core::cell::UnsafeCell': 'UnsafeCell', 'std::sync::mutex::Mutex': 'Mutex',
    'std::sync::rwlock::RwLock': 'RwLock', 'core::cell::once::OnceCell': 'OnceCell', 'std::sync::once_lock::OnceLock': 'OnceLock',
    'std::sync::poison::mutex::Mutex': 'Mutex', 'std::sync::poison::rwlock::RwLock': 'RwLock',
    'core::sync::atomic::AtomicUsize': 'Atomic', 'core::sync::atomic::AtomicBool': 'Atomic',
    'alloc::boxed::Box': None, 'alloc::vec::Vec': None, 'core::option::Option': None,
}
OPAQUE_OK = {
    'arcstr::arc_str::ArcStr': 'immutable ref-counted string', 'arcstr::substr::Substr': 'immutable ref-counted substring',
    'rpds::vector::Vector': 'persistent vector (structural sharing, copy-on-write nodes)',
    'rpds::map::red_black_tree_map::RedBlackTreeMap': 'persistent map (structural sharing, copy-on-write nodes)',
    'alloc::string::String': 'owned', 'core::ops::range::Range': 'plain data', 'alloc::alloc::Global': 'allocator ZST',
    'archery::shared_pointer::kind::rc::RcK': 'rpds pointer kind marker', 'alloc::borrow::Cow': None,
}
INVENTORY = {
    "Rc<Cow<'static,[u8]>>": 'Bitstr.data: shared between slices and clones; every write goes through data_mut -> Rc::make_mut + Cow::to_mut (R2)',
    'Rc<cell::WithTag>': 'tag wrapper: built once in Cell::with_tags, never mutated (no &mut access anywhere: R2)',
    'Rc<cell::Cell>': 'CellBox literal in Opcode::LoadCell: never mutated',
    'Rc<RefCell<dyn>>': 'Cell::AnyRc host object: shared by clone by design; mutation sites are R3 findings',
    'fnptr': 'XfnPtr: pointer to a native word, code not data',
    "&'static": "borrowed static buffer inside Cow::Borrowed: never written (to_mut copies first)",
}


def sig(tj):
    k = tj['k']
    if k == 'adt':
        name = SHARE_ADTS.get(tj['adt']) or tj['adt'].split('::')[-1] if tj['adt'] in SHARE_ADTS else tj['adt']
        args = [sig(a) for a in tj['args'] if not (a['k'] == 'adt' and a['adt'] in ('alloc::alloc::Global', 'archery::shared_pointer::kind::rc::RcK'))]
        reg = ''.join(r for r in tj.get('regions', []) if 'static' in r)
        inner = ','.join(([reg] if reg else []) + args)
        return '%s<%s>' % (name, inner) if inner else str(name)
    if k == 'slice':
        return '[%s]' % sig(tj['to'])
    if k == 'array':
        return '[%s;N]' % sig(tj['to'])
    if k == 'ref':
        return "&%s%s" % ("'static " if 'static' in tj.get('region', '') else '', sig(tj['to']))
    if k == 'rawptr':
        return '*%s %s' % ('mut' if tj['mut'] else 'const', sig(tj['to']))
    if k == 'tuple':
        return '(%s)' % ','.join(sig(a) for a in tj['args'])
    if k == 'dyn':
        return 'dyn'
    if k == 'fnptr':
        return 'fnptr'
    return tj.get('txt', k)


RC_OBSERVERS = ('::strong_count', '::weak_count', 'Rc::<T, A>::get_mut', 'Rc::<T>::get_mut', '::try_unwrap', 'Rc::<T, A>::into_inner',
                '::ptr_eq', '::is_unique', 'SharedPointer::<T, P>::get_mut', 'SharedPointer::<T, P>::try_unwrap', 'core::ptr::eq', 'core::ptr::addr_eq')


def _mentions(j, l):
    """number of places/operands in the JSON value `j` whose base local is `l`"""
    if isinstance(j, dict):
        n = 1 if j.get('l') == l and 'p' in j else 0
        return n + sum(_mentions(v, l) for v in j.values())
    if isinstance(j, list):
        return sum(_mentions(v, l) for v in j)
    return 0


def _only_len_uses(f, lhs):
    """the raw pointer is stored in a bare local whose every other mention is `PtrMetadata(move _l)`"""
    if lhs['p']:
        return False
    l = lhs['l']
    uses = lens = 0
    for b in f.blocks:
        for st in b['stmts']:
            m = _mentions(st, l)
            if not m:
                continue
            if st['k'] == 'assign' and st['lhs']['l'] == l and not st['lhs']['p'] and st['rv']['k'] == 'rawptr':
                m -= 1
            elif st['k'] == 'assign' and st['rv']['k'] == 'un' and st['rv']['op'] == 'PtrMetadata':
                lens += 1
                m -= 1
            uses += m
        uses += _mentions(b.get('term'), l)
    return uses == 0 and lens >= 1



def walk_types(fx, root):
    """yield (path, node) for every sharing node reachable from the fields of `root`"""
    seen_adts = set()
    out = []

    def visit(tj, path):
        k = tj['k']
        if k == 'adt':
            a = tj['adt']
            if a in SHARE_ADTS and SHARE_ADTS[a]:
                out.append((path, 'share', sig(tj), tj))
                # still look inside for nested local types
            if a in fx.adts and tj.get('local'):
                if a not in seen_adts:
                    seen_adts.add(a)
                    for v in fx.adts[a]['variants']:
                        for f in v['fields']:
                            visit(f['tyj'], path + ['%s::%s.%s' % (a, v['name'], f['name'])])
            elif a not in SHARE_ADTS and a not in OPAQUE_OK and not tj.get('local'):
                out.append((path, 'foreign', a, tj))
            for x in tj['args']:
                visit(x, path)
        elif k in ('slice', 'array'):
            visit(tj['to'], path)
        elif k == 'ref':
            out.append((path, 'share', sig(tj), tj))
            visit(tj['to'], path)
        elif k == 'rawptr':
            out.append((path, 'share', sig(tj), tj))
        elif k == 'tuple':
            for x in tj['args']:
                visit(x, path)
        elif k == 'fnptr':
            out.append((path, 'share', 'fnptr', tj))
        elif k in ('dyn', 'other', 'deep'):
            out.append((path, 'opaque', tj.get('txt', k), tj))
    if root not in fx.adts:
        raise MissingAnchor('ADT %s' % root)
    seen_adts.add(root)
    for v in fx.adts[root]['variants']:
        for f in v['fields']:
            visit(f['tyj'], ['%s.%s' % (root, f['name'])])
    return out, seen_adts


ALIAS_CALLS = {
    'alloc::rc::Rc::<T, A>::get_mut': 'get_mut', 'alloc::rc::Rc::<T, A>::make_mut': 'make_mut',
    'alloc::rc::Rc::<T, A>::get_mut_unchecked': 'get_mut_unchecked', 'alloc::rc::Rc::<T, A>::as_ptr': 'as_ptr',
    'alloc::rc::Rc::<T, A>::into_raw': 'into_raw', 'alloc::rc::Rc::<T, A>::from_raw': 'from_raw', 'alloc::rc::Rc::<T>::from_raw': 'from_raw',
    'alloc::rc::Rc::<T, A>::try_unwrap': 'try_unwrap', 'alloc::rc::Rc::<T, A>::unwrap_or_clone': 'unwrap_or_clone',
    'alloc::rc::Rc::<T, A>::strong_count': 'strong_count', 'alloc::rc::Rc::<T, A>::ptr_eq': 'ptr_eq',
    "alloc::borrow::Cow::<'_, B>::to_mut": 'to_mut',
    'core::cell::RefCell::<T>::borrow_mut': 'borrow_mut', 'core::cell::RefCell::<T>::try_borrow_mut': 'try_borrow_mut',
    'core::cell::RefCell::<T>::as_ptr': 'refcell.as_ptr', 'core::cell::RefCell::<T>::get_mut': 'refcell.get_mut',
    'core::cell::UnsafeCell::<T>::get': 'unsafecell.get',
    'core::slice::raw::from_raw_parts': 'from_raw_parts', 'core::slice::raw::from_raw_parts_mut': 'from_raw_parts_mut',
    'core::intrinsics::transmute': 'transmute', 'core::mem::transmute': 'transmute',
    'core::ptr::write': 'ptr::write', 'core::ptr::mut_ptr::<impl *mut T>::write': 'ptr.write',
    'core::slice::<impl [T]>::as_mut_ptr': 'as_mut_ptr', 'alloc::vec::Vec::<T, A>::as_mut_ptr': 'as_mut_ptr',
    'core::ptr::const_ptr::<impl *const T>::cast_mut': 'cast_mut',
}
ALIAS_ALLOWED = {
    ('make_mut', 'bitstr::Bitstr::data_mut'): 'the copy-on-write point: clones the buffer when it is shared',
    ('to_mut', 'bitstr::Bitstr::data_mut'): 'turns a borrowed static buffer into an owned copy before the first write',
    ('strong_count', 'bitstr::Bitstr::detach'): 'unique-owner fast path: only compared with 1, returns the receiver by value',
    ('from_raw_parts', 'file::fs_overlay::load_binary'): 'mmap exposed as &\'static [u8], stored as Cow::Borrowed (never written: to_mut copies)',
}
D2_READERS = {'d2_plugin::size', 'd2_plugin::width_get', 'd2_plugin::height_get', 'd2_plugin::data_get', 'd2_plugin::copy_rgba_data'}
NONDET = ('getrandom::', 'std::time::', 'std::env::', 'std::collections::hash::map::RandomState', 'std::hash::random::RandomState',
          'std::thread::local::LocalKey', 'std::process::id', 'std::thread::current')
NONDET_ALLOWED = {'arith::core_word_random': 'the word `random` (excluded by the quantifier)',
                  'bitstr_ext::random_bits': 'the word `random-bits` (excluded by the quantifier)',
                  'repl::parse_args': 'command-line parsing of the xeh binary (not part of a State)'}


def _host_field_borrow(f, l, depth):
    """is local l a `&mut` borrow of a field of the downcast host object, possibly through deref_mut/get_mut/iter_mut?"""
    if depth > 6:
        return False
    for (b0, i0, kind, payload) in f.defs().get(l, []):
        if kind == 'assign' and payload['k'] == 'ref' and payload['mut']:
            base = payload['p']
            if any(isinstance(x, dict) and 'f' in x for x in base['p']):
                e = expr_str(f.expr_of_local(base['l']), -20)
                if 'downcast_mut' in e:
                    return True
            elif all(x == '*' for x in base['p']):
                if _host_field_borrow(f, base['l'], depth + 1):
                    return True
        elif kind == 'assign' and payload['k'] == 'use':
            q = op_place(payload['o'])
            if q is not None and not q['p'] and _host_field_borrow(f, q['l'], depth + 1):
                return True
        elif kind == 'call':
            c = callee_of(payload) or ''
            if (awrite.classify_callee(c) == 'derive' or c.endswith('::deref_mut')) and payload['args']:
                q = op_place(payload['args'][0])
                if q is not None and not q['p'] and _host_field_borrow(f, q['l'], depth + 1):
                    return True
    return False


def run(rep, facts, tier):
    fx = facts['dev']
    rep.rule('C03.R1', 'sharing-edge inventory: every pointer/cell through which a clone can share storage is in the reviewed list')
    rep.rule('C03.R2', 'no &mut / raw pointer into a shared pointee except the copy-on-write point')
    rep.rule('C03.R3', 'host objects (Cell::AnyRc) are shared by clone: mutation sites are listed findings')
    rep.rule('C03.R4', 'snapshots are direct results of State::clone; the live state is replaced only by clones / popped snapshots')
    rep.rule('C03.R5', 'no global mutable state; nondeterminism sources only in the excluded words')
    rep.rule('C03.R6', 'unsafe inventory')
    rep.rule('C03.R7', 'sharing is not observable: no result depends on a reference count or on pointer identity')

    # ---------- R1
    nodes, seen = walk_types(fx, 'state::State')
    n_share = 0
    for path, kind, s_, tj in nodes:
        where = path[-1] if path else '?'
        if kind == 'share':
            n_share += 1
            norm = s_.replace(' ', '')
            inv = None
            if norm.startswith('Rc<') and 'Cow<' in norm and '[u8]' in norm:
                inv = "Rc<Cow<'static,[u8]>>"
            elif norm == 'Rc<cell::WithTag>':
                inv = 'Rc<cell::WithTag>'
            elif norm == 'Rc<cell::Cell>':
                inv = 'Rc<cell::Cell>'
            elif norm.startswith('Rc<RefCell<dyn'):
                inv = 'Rc<RefCell<dyn>>'
            elif norm.startswith('RefCell<dyn'):
                inv = 'Rc<RefCell<dyn>>'
            elif norm == 'fnptr':
                inv = 'fnptr'
            elif norm.startswith("&'static"):
                inv = "&'static"
            rep.add('C03.R1', 'C03.R1:%s@%s' % (norm[:50], where), inv is not None,
                    INVENTORY[inv] if inv else 'new sharing edge %s at %s: a clone of State shares this storage with the original and nothing '
                    'in the reviewed inventory covers it' % (s_, where), where, fx.adts.get(where.split('::')[0], {}).get('span'))
        elif kind == 'foreign':
            rep.add('C03.R1', 'C03.R1:foreign:%s@%s' % (s_, where), False,
                    'unreviewed foreign type %s inside State at %s: its clone semantics are unknown' % (s_, where), where)
    rep.floor('C03.R1 sharing nodes in the State type graph', n_share, 5)
    rep.floor('C03.R1 local ADTs reached from State', len(seen), 15)
    # State must derive Clone (not a hand-written shallow clone)
    cl = fx.fns.get('<state::State as core::clone::Clone>::clone')
    okc = cl is not None and cl.j.get('exp') is True
    rep.add('C03.R1', 'C03.R1:State-derives-Clone', okc, 'State::clone is the derived field-wise clone' if okc else
            'State::clone is hand-written or missing: field-wise deep copy is not guaranteed', 'state::State', cl.j['span'] if cl else None, nontrivial=False)

    # ---------- R2
    n_alias = 0
    n_lenptr = 0
    for fn in sorted(fx.fns):
        f = fx.fns[fn]
        if fn.startswith('c_api::'):
            continue
        for bb, t in f.calls():
            c = callee_of(t)
            if c in ALIAS_CALLS:
                kind = ALIAS_CALLS[c]
                if kind in ('try_borrow_mut', 'borrow_mut') and (fn.startswith('d2_plugin::') or 'repl::' in fn):
                    continue   # R3 / REPL-private RefCell
                n_alias += 1
                ok = (kind, fn) in ALIAS_ALLOWED
                rep.add('C03.R2', 'C03.R2:%s:%s' % (kind, fn), ok,
                        ALIAS_ALLOWED.get((kind, fn), '') if ok else
                        '%s calls %s: it can obtain a mutable/raw view of storage that other values and cloned interpreters share' % (short(fn), short(c)),
                        fn, t.get('at'))
        # raw pointer creation / pointer casts to *mut
        for bb in f.reachable_blocks():
            for st in f.blocks[bb]['stmts']:
                if st['k'] != 'assign' or st.get('exp'):
                    continue
                rv = st['rv']
                raw = rv['k'] == 'rawptr' or (rv['k'] == 'cast' and f.ty(rv['to']).startswith('*mut') and 'PtrToPtr' in rv['ck'])
                if raw and rv['k'] == 'rawptr' and not rv.get('mut') and _only_len_uses(f, st['lhs']):
                    # `&raw const *slice` that MIR building emits to read a slice's length for a bounds check:
                    # the pointer is consumed by PtrMetadata and nothing else, so nothing can be written through it
                    n_lenptr += 1
                    continue
                if raw:
                    ok = fn == 'file::fs_overlay::load_binary'
                    rep.add('C03.R2', 'C03.R2:rawptr:%s' % fn, ok, 'mmap pointer (reviewed)' if ok else
                            '%s creates a raw pointer (%s): writes through it bypass the copy-on-write check' % (short(fn), f.ty(st['lhs']['t'])),
                            fn, st.get('at'))
    rep.floor('C03.R2 alias-producing call sites', n_alias, 3)
    rep.note('C03.R2: %d length-only raw-const pointers (consumed by PtrMetadata alone) not counted as raw views' % n_lenptr)
    # data_mut really goes through make_mut then to_mut
    dm = fx.need('bitstr::Bitstr::data_mut')
    s0 = expr_str(dm.expr_of_local(0), -20)
    okd = 'make_mut' in s0 and 'to_mut' in s0 and s0.index('to_mut') < s0.index('make_mut')
    rep.add('C03.R2', 'C03.R2:data_mut:is-cow', okd, 'data_mut = Rc::make_mut(&mut self.data).to_mut()' if okd else
            'Bitstr::data_mut does not obtain its buffer through Rc::make_mut(..).to_mut(): %s' % s0[:80], dm.name, dm.j['span'])
    # every write to Bitstr.data goes through data_mut
    tr = {'bitstr::Bitstr': {'data'}}
    Wb = awrite.all_field_writes(fx, 'bitstr-data', tr)
    for fn, ws in sorted(Wb.items()):
        for w in ws:
            ok = fn in ('bitstr::Bitstr::data_mut',) or w['how'] == 'assign' and not w.get('elem')
            # whole-field assignment of a fresh Rc is construction, not mutation of shared storage
            rep.add('C03.R2', 'C03.R2:bitstr-data-write:%s:%s' % (fn, w['how']), ok,
                    'the COW accessor / construction of a fresh buffer' if ok else
                    '%s writes Bitstr.data (%s) without going through data_mut' % (short(fn), w['how']), fn, w['at'])

    # ---------- R3
    n_host = 0
    from .. import inline
    V3 = inline.View(fx)      # a shared `with_canvas(xs, |c| ..)` helper and the closures handed to it are looked through
    for fn in sorted(fx.fns):
        if (V3.transparent(fn) and fx.callers().get(fn)) or '{closure' in fn:
            continue
        f = V3(fn)
        if not any(callee_of(t) in ('core::cell::RefCell::<T>::try_borrow_mut', 'core::cell::RefCell::<T>::borrow_mut') for _, t in f.calls()):
            continue
        if 'repl::' in fn:
            continue
        n_host += 1
        # does it write through the downcast?
        writes = False
        for bb in f.reachable_blocks():
            for st in f.blocks[bb]['stmts']:
                if st['k'] == 'assign' and st['lhs']['p']:
                    e = expr_str(f.expr_of_place(st['lhs']), -20)
                    if 'downcast_mut' in e:
                        writes = True
            t = f.blocks[bb]['term']
            if t['k'] == 'call' and t['args']:
                p = op_place(t['args'][0])
                if p is not None and f.ty(p['t']).startswith('&mut') and not p['p']:
                    c = callee_of(t) or ''
                    cls = awrite.classify_callee(c)
                    if cls != 'derive' and not c.endswith('::deref_mut') and _host_field_borrow(f, p['l'], 0):
                        writes = True
        rep.add('C03.R3', 'C03.R3:host-object-mutation:%s' % fn, not writes,
                'borrows the host object but only reads it' if not writes else
                '%s mutates a host object (Cell::AnyRc) in place: the object is shared, not copied, by State::clone, so the change is visible '
                'in every snapshot' % short(fn), fn, f.j['span'])
    rep.floor('C03.R3 host-object users', n_host, 8)

    # ---------- R4
    clone_name = '<state::State as core::clone::Clone>::clone'
    for fn, field in (('repl::ReplState::snapshot', 'snapshots'), ('repl::ReplState::update_xstate', 'snapshots')):
        f = fx.fns.get(fn)
        if f is None:
            raise MissingAnchor(fn)
        ok = False
        for bb, t in f.calls():
            if (callee_of(t) or '').endswith('Vec::<T, A>::push') and 'snapshots' in expr_str(f.expr_of_operand(t['args'][0]), -10):
                e = f.expr_of_operand(t['args'][1])
                ok = any(isinstance(x, tuple) and x[0] == 'call' and x[1] == clone_name for x in expr_walk(e))
        rep.add('C03.R4', 'C03.R4:%s:pushes-clone' % fn, ok, 'pushes xs.clone()' if ok else '%s pushes something that is not a fresh clone of the state' % short(fn), fn, f.j['span'])
    trr = {'repl::ReplState': {'xs'}}
    Wr = awrite.all_field_writes(fx, 'repl-xs', trr)
    for fn, ws in sorted(Wr.items()):
        for w in ws:
            if w['field'] != ('xs',) or w.get('elem') or not (w['how'] == 'assign' or w['how'].startswith('call:overwrite')):
                continue
            ok = fn in ('repl::ReplState::reset_xstate', 'repl::ReplState::rollback')
            rep.add('C03.R4', 'C03.R4:xs-replaced:%s' % fn, ok, 'installs a clone of the snapshot / the popped snapshot' if ok else
                    '%s replaces the live interpreter state' % short(fn), fn, w['at'], nontrivial=False)
    sn = fx.fns.get('c_api::xeh_snapshot')
    if sn is not None:
        ok = any(callee_of(t) in (clone_name, '<alloc::boxed::Box<T, A> as core::clone::Clone>::clone') for _, t in sn.calls())
        rep.add('C03.R4', 'C03.R4:c_api::xeh_snapshot', ok, 'returns a clone of the boxed state' if ok else 'xeh_snapshot does not clone', sn.name, sn.j['span'])

    # ---------- R5
    for s_ in fx.j.get('statics', []):
        rep.add('C03.R5', 'C03.R5:static:%s' % s_['path'], not s_['mut'] and False,
                'static item %s in the crate: state outside State is shared by every interpreter and clone' % s_['path'], s_['path'], s_['at'])
    roots = set(runtime_targets(fx)) | set(immediate_targets(fx)) | {'state::State::fetch_and_run'}
    n_nd = 0
    for fn in sorted(fx.fns):
        f = fx.fns[fn]
        for bb, t in f.calls():
            c = callee_of(t) or ''
            u = t['func'].get('c', {}).get('fn', '') if 'c' in t['func'] else ''
            if any(c.startswith(p) or u.startswith(p) or ('<' + p) in c for p in NONDET):
                n_nd += 1
                base = fn.split('::{closure')[0]
                ok = base in NONDET_ALLOWED
                rep.add('C03.R5', 'C03.R5:nondeterminism:%s:%s' % (fn, short(c).split('::')[-1]), ok,
                        NONDET_ALLOWED.get(base, '') if ok else
                        '%s uses %s: a source of nondeterminism or thread-global state that makes a re-run of the clone diverge / couples copies'
                        % (short(fn), short(c)), fn, t.get('at'))
    rep.floor('C03.R5 nondeterminism call sites', n_nd, 2)
    rep.add('C03.R5', 'C03.R5:no-statics', not fx.j.get('statics'), 'the crate defines no static items (no global or thread-local state)'
            if not fx.j.get('statics') else 'static items present: %s' % [s_['path'] for s_ in fx.j['statics']], None, None, nontrivial=False)

    # a `'static` view of memory is honest only if the memory is never freed.  Bit-strings borrow the mapped input without
    # keeping it alive and outlive the interpreter (a value popped by the host): the mapping they borrow is leaked, not stored
    # in something that is dropped (a heap cell of the State)
    lb = fx.fns.get('file::fs_overlay::load_binary')
    if lb is not None:
        maps = [(bb, t) for bb, t in lb.calls() if (callee_of(t) or '').endswith('Mmap::map') or 'MmapOptions' in (callee_of(t) or '')]
        if maps:
            leaks = [(bb, t) for bb, t in lb.calls() if (callee_of(t) or '').startswith('alloc::boxed::Box::<T') and (callee_of(t) or '').endswith('::leak') or (callee_of(t) or '').endswith('mem::forget')]
            raw = [(bb, t) for bb, t in lb.calls() if (callee_of(t) or '').endswith('from_raw_parts')]
            stored = [(bb, t) for bb, t in lb.calls() if (callee_of(t) or '').endswith('from_any')]
            okm = bool(leaks) and not raw and not stored
            rep.add('C03.R6', 'C03.R6:file::fs_overlay::load_binary:static-view-of-memory-that-stays', okm,
                    'the mapping is leaked (Box::leak) and the view is a plain borrow of it' if okm else
                    'load_binary makes a `&\'static [u8]` over a mapping that is %s: a bit-string popped by the host and used after the '
                    'interpreter is dropped reads unmapped memory' % ('stored in a cell of the interpreter' if stored else 'not leaked'),
                    lb.name, maps[0][1].get('at'))
    # ---------- R6
    ub = fx.j.get('unsafe_blocks', [])
    for u in ub:
        ok = u['fn'] == 'file::fs_overlay::load_binary'
        rep.add('C03.R6', 'C03.R6:unsafe-block:%s' % u['fn'], ok, 'mmap of the input file (reviewed)' if ok else
                'unsafe block in %s: not in the reviewed inventory' % u['fn'], u['fn'], u['at'])
    for fn, f in sorted(fx.fns.items()):
        if f.j.get('unsafe'):
            ok = fn.startswith('c_api::')
            rep.add('C03.R6', 'C03.R6:unsafe-fn:%s' % fn, ok, 'C API entry point (FFI contract)' if ok else 'unsafe fn outside the C API', fn, f.j['span'],
                    nontrivial=False)
    rep.floor('C03.R6 unsafe blocks', len(ub), 1)
    # a raw pointer handed out (returned) must not point into a value this function owns and drops: as_ptr() on a local
    # temporary (e.g. the Cow::Owned copy bytestr() makes for an unaligned value) dangles as soon as the function returns
    n_ptr = 0
    for fn, f in sorted(fx.fns.items()):
        ret = f.expr_of_local(0)
        for bb, t in f.calls():
            c = callee_of(t) or ''
            if not (c.endswith('::as_ptr') or c.endswith('::as_mut_ptr')) or not t['args']:
                continue
            if not any(isinstance(x, tuple) and x[0] == 'call' and x[1] == c and x[3] == f.obb(bb) for x in expr_walk(ret)):
                continue
            n_ptr += 1
            # root local of the receiver
            recv = f.expr_of_operand(t['args'][0])
            owned_tmp = None
            for x in expr_walk(recv):
                if isinstance(x, tuple) and x[0] == 'call' and x[1] in fx.fns and ('Cow' in fx.fns[x[1]].local_ty(0) or 'Vec<' in fx.fns[x[1]].local_ty(0)
                                                                                   or 'String' in fx.fns[x[1]].local_ty(0)):
                    owned_tmp = x[1]
            ok = owned_tmp is None
            rep.add('C03.R6', 'C03.R6:returned-pointer:%s' % fn, ok,
                    'the pointer points into storage that outlives the call' if ok else
                    '%s returns as_ptr() of the value %s produced: when that value is an owned copy (Cow::Owned / Vec) it is dropped on return and '
                    'the caller reads freed memory' % (short(fn), short(owned_tmp)), fn, t.get('at'))
    rep.add('C03.R6', 'C03.R6:returned-pointers-counted', True, '%d functions return a pointer obtained with as_ptr()' % n_ptr, None, None, nontrivial=False)

    # ---------- R7: a clone raises reference counts; code that reads them (or pointer identity) behaves differently
    # once a snapshot exists.  Expected: none.  A copy-on-write helper may test the count to skip the copy, if the
    # value it returns is the same either way: for Bitstr::detach the copying arm left-aligns (range 0..len), so the
    # in-place arm must be taken only for a value that already starts at bit 0.
    from ..rules.c08 import guard_facts
    from ..zone import strip as zstrip, lin
    n7 = 0
    for fn, f in sorted(fx.fns.items()):
        for bb, t in f.calls():
            c = callee_of(t) or ''
            if not any(c.endswith(x) for x in RC_OBSERVERS):
                continue
            n7 += 1
            ok, why = False, '%s reads %s: the outcome depends on whether a clone of the interpreter still shares the value' % (short(fn), short(c))
            if fn == 'bitstr::Bitstr::detach':
                # blocks that return `self` unchanged
                keeps = [b for b in f.reachable_blocks() for st in f.blocks[b]['stmts']
                         if st['k'] == 'assign' and st['lhs']['l'] == 0 and not st['lhs']['p'] and st['rv']['k'] == 'use'
                         and isinstance(f.expr_of_operand(st['rv']['o']), tuple) and f.expr_of_operand(st['rv']['o'])[0] == 'arg']
                aligned = bool(keeps)
                for b in keeps:
                    facts_b = guard_facts(f, b)
                    has = False
                    for (op, a, b2) in facts_b:
                        if op == 'Eq':
                            sa, sb = expr_str(zstrip(a), -10), expr_str(zstrip(b2), -10)
                            if ('range.start' in sa and sb == '0') or ('range.start' in sb and sa == '0'):
                                has = True
                    aligned = aligned and has
                ok = aligned
                why = ('the uncopied arm is taken only when range.start == 0, the copying arm builds range 0..len: same representation either way'
                       if ok else 'Bitstr::detach returns the value unchanged when it is the sole owner and a left-aligned copy (range 0..len) when '
                       'it is shared: `start()` - and with it `open-bitstr offset` - depends on whether a snapshot holds the buffer')
            if c == 'arcstr::arc_str::ArcStr::ptr_eq':
                # identity of an immutable string buffer: ArcStr has no copy-on-write, Clone shares the allocation, so two handles that
                # are identical before State::clone are identical in both copies afterwards (and no count is read)
                ok, why = True, 'ArcStr::ptr_eq compares allocations of immutable text; cloning the interpreter shares them, the answer is the same in every copy'
            rep.add('C03.R7', 'C03.R7:refcount-observed:%s' % fn, ok, why, fn, t.get('at'))
    rep.add('C03.R7', 'C03.R7:observers-counted', True, '%d reference-count / pointer-identity reads in the crate' % n7, None, None, nontrivial=False)

# as-built addendum
EXPLANATION += " As built (DESIGN 9.2): R6 also: the C API hands out a pointer only from slice(); a 'static view is made only of memory leaked for good. R7: no result depends on a reference count or on the identity of mutable storage (ArcStr::ptr_eq on immutable source buffers is exempt)."
