"""C15 — how a program is driven does not change what it does.

R1 recording is observation-only; R2 run is next in a loop, eval is compile + run."""
from ..core import callee_of, expr_walk, expr_str, short, runtime_targets, MissingAnchor
from .. import awrite, logfx
from ..pathq import bool_branch, try_continue_block

EXPLANATION = (
    "Observational equality across {eval, compile+run, compile+step*} x recording {off,on} is value-level; its two "
    "mechanisms are structural and decided here from MIR. R1 (recording is observation-only): in every function of the crate, "
    "the blocks control-dependent on either edge of a branch on is_recording() / reverse_log.is_some() contain nothing but "
    "calls to add_reverse_step, Clone::clone, ReverseStep constructors and drops - no write to any State field, no call to a "
    "state-mutating function, no return - so forward execution performs the same writes with recording on and off; and "
    "reverse_log is read only by rnext/set_recording_enabled/is_recording/add_reverse_step. R2: State::run and State::next call "
    "the same step function under the same is_running() guard with the same error recorder and differ only in looping; "
    "evalxstr and compile_xstr are the same build entry with a different constant mode, and the only code that compares the "
    "mode with Eval/Compile is context_open/context_close (whose Eval arm is the run()). With C14.R3 (single metered dispatch "
    "function) this is the structural content of 'stepping = running = evaluating'.")
RULE_TEXT = ("instances = every is_recording() branch in the crate (both edges), every reader of reverse_log, the run/next "
             "sibling signature, the eval/compile sibling signature, every comparison of ctx.mode against Eval/Compile; "
             "non-trivial = control-dependence region + effect scan")
ASSUMPTIONS = ["rustc MIR / Instance resolution correct", "Clone impls of Cell/Frame/Loop/Special have no side effects on State"]

REC = 'state::State::is_recording'
ADD = 'state::State::add_reverse_step'
PURE_IN_REGION = ('::clone', 'core::mem::drop')
LOG_READERS = {'state::State::rnext', 'state::State::rnext::{closure#0}', 'state::State::set_recording_enabled',
               # mark / cut of the log around a build-time evaluation (C02.R3): the length read goes into Context.rl_len only
               'state::State::context_open', 'state::State::context_open::{closure#0}', 'state::State::context_close',
               'state::State::is_recording', 'state::State::add_reverse_step', '<state::State as core::clone::Clone>::clone',
               '<state::State as core::default::Default>::default'}


_V = [None]


def _roots_of(fx, fn):
    """the named functions fn is used by: fn itself when a rule names it or nobody calls it, otherwise the roots of its callers"""
    from .. import inline
    if _V[0] is None or _V[0].fx is not fx:
        _V[0] = inline.View(fx)
    V = _V[0]
    roots, seen, todo = set(), set(), [fn]
    while todo:
        g = todo.pop()
        if g in seen:
            continue
        seen.add(g)
        base = g.split('::{closure')[0]
        callers = set(fx.callers().get(g, ())) | (set(fx.callers().get(base, ())) if base != g else set())
        if base != g:
            callers.add(base)
        if V.transparent(base) and callers:
            todo += [c for c in callers if c != g]
        else:
            roots.add(base)
    return roots


def regions(f):
    """for each branch on is_recording(): (branch bb, true-region, false-region) of exclusively-dependent blocks"""
    out = []
    dom = f.dominators()
    for bb in sorted(f.reachable_blocks()):
        br = bool_branch(f, bb)
        if br is None:
            continue
        e, tbb, fbb = br
        is_rec = isinstance(e, tuple) and e[0] == 'call' and (e[1] == REC or (e[1].endswith('::is_some') and 'reverse_log' in expr_str(e)))
        neg = False
        if isinstance(e, tuple) and e[0] == 'un' and e[1] == 'Not':
            inner = e[2]
            if isinstance(inner, tuple) and inner[0] == 'call' and inner[1] == REC:
                is_rec, neg = True, True
        if not is_rec:
            continue
        def reg(start, other):
            if len(f.pred(start)) != 1:
                return set()
            return {b for b, d in dom.items() if d is not None and start in d}
        out.append((bb, reg(tbb, fbb), reg(fbb, tbb), neg))
    return out


def run(rep, facts, tier):
    fx = facts['dev']
    rep.rule('C15.R1', 'recording is observation-only: code guarded by is_recording() only logs; reverse_log has four readers')
    rep.rule('C15.R2', 'run is next in a loop; eval is compile + run: sibling drive functions share one step / one build entry')
    tracked = awrite.state_tracked(fx)
    W = awrite.all_field_writes(fx, 'state', tracked)
    # functions that (transitively) write State
    memo = {}

    def mutates(c, stack=()):
        if c in memo:
            return memo[c]
        if c in stack or c not in fx.fns:
            return False
        r = bool([w for w in W.get(c, []) if w['field'][0] != 'reverse_log'])
        if not r:
            for d in fx.callgraph().get(c, ()):
                if d in fx.fns and mutates(d, stack + (c,)):
                    r = True
                    break
        memo[c] = r
        return r

    from .c02 import is_machine
    FX = logfx.log_effects(fx, W, is_machine)
    POPS = logfx.poppers(fx, W)
    n_sites = sum(1 for fn in fx.fns for _, t in fx.fns[fn].calls() if callee_of(t) in FX)
    n_br = 0
    for fn in sorted(fx.fns):
        f = fx.fns[fn]
        for (bb, treg, freg, neg) in regions(f):
            n_br += 1
            for side, region in (('recording', treg), ('not-recording', freg)):
                if neg:
                    side = 'not-recording' if side == 'recording' else 'recording'
                bad = []
                for b in sorted(region):
                    blk = f.blocks[b]
                    for w in W.get(fn, []):
                        if w['bb'] == b and w['field'][0] != 'reverse_log':
                            bad.append('writes State.%s (%s)' % ('.'.join(w['field']), w['how']))
                    t = blk['term']
                    if t['k'] == 'call':
                        c = callee_of(t)
                        if c is None:
                            bad.append('indirect call')
                        elif c in FX and side == 'recording':
                            pass
                        elif any(c.endswith(p) or p in c for p in PURE_IN_REGION):
                            pass
                        elif c in fx.fns and mutates(c):
                            bad.append('calls %s which mutates State' % short(c))
                        elif c in FX:
                            bad.append('logs on the not-recording side')
                    elif t['k'] == 'return':
                        bad.append('returns early')
                key = 'C15.R1:%s:%s-side' % (fn, side)
                rep.add('C15.R1', key, not bad,
                        'only logging / cloning on the %s side' % side if not bad else
                        'behaviour depends on recording: on the %s side %s %s' % (side, short(fn), '; '.join(sorted(set(bad))[:3])),
                        fn, f.at(bb))
    # recording-dependent constructs: explicit branches plus calls of the self-guarding log helpers (a tree that drops the
    # explicit `if is_recording()` around add_reverse_step has fewer branches and as many sites)
    rep.floor('C15.R1 is_recording() branches + log sites', n_br + n_sites, 30)

    # readers / writers of reverse_log
    tr = {'state::State': {'reverse_log'}}
    n_rd = 0
    for fn in sorted(fx.fns):
        f = fx.fns[fn]
        evs = awrite.field_events(fx, f, tr)
        # plain reads through statements
        reads = bool(evs)
        if not reads:
            for bb in f.reachable_blocks():
                for st in f.blocks[bb]['stmts']:
                    if st['k'] == 'assign' and 'reverse_log' in str(st['rv']) and 'state::State' in (f.locals[st['rv'].get('p', {}).get('l', 0)].get('adt', '') if st['rv'].get('p') else ''):
                        reads = True
        if reads:
            n_rd += 1
            ok = fn in LOG_READERS
            why_ok = 'one of the owners of the reverse log'
            if not ok and evs:
                # a length mark taken or restored around a build (the rollback of a rejected source, C02 / C10): all the function does
                # with the log is read its length or cut it back - nothing is read out of it, so nothing can depend on its contents
                names = {(ev['callee'] or '').rsplit('::', 1)[-1] for ev in evs}
                # `reverse_log.as_ref().map_or(0, |log| log.len())`: the consumer of the borrowed Option is a closure that only asks the length
                for bb_, t_ in f.calls():
                    c_ = callee_of(t_) or ''
                    if c_.rsplit('::', 1)[-1] in ('map_or', 'map', 'map_or_else') and t_['args'] and 'reverse_log' in expr_str(f.expr_of_operand(t_['args'][0]), -8):
                        clos = [x[1] for a_ in t_['args'][1:] for x in expr_walk(f.expr_of_operand(a_)) if isinstance(x, tuple) and x[0] == 'closure']
                        if clos and all(g in fx.fns and {(callee_of(t2) or '').rsplit('::', 1)[-1] for _, t2 in fx.fns[g].calls()} <= {'len'} for g in clos):
                            names.add('len')
                        else:
                            names.add('consumed-by-' + c_.rsplit('::', 1)[-1])
                if names <= {'as_ref', 'as_mut', 'map_or', 'map', 'len', 'truncate', 'is_some', 'is_none', 'deref', 'deref_mut'} and \
                        ('len' in names or 'truncate' in names):
                    ok, why_ok = True, 'takes or restores a length mark of the log (%s): its contents are not read' % ', '.join(sorted(names))
            if not ok and not mutates(fn):
                rt = f.local_ty(0)
                callers = fx.callers().get(fn, set())
                if fn in FX and all(e['pure'] for e in FX[fn]) and rt == '()':
                    ok, why_ok = True, 'log helper: appends an entry when recording, changes nothing else and returns nothing'
                elif fn in POPS and callers and all(c in LOG_READERS for c in callers):
                    ok, why_ok = True, 'pops the log for %s only' % ', '.join(short(c) for c in sorted(callers))
            rep.add('C15.R1', 'C15.R1:reverse_log-access:%s' % fn, ok,
                    why_ok if ok else '%s reads or writes State.reverse_log: behaviour can depend on recording' % short(fn),
                    fn, f.j['span'], nontrivial=False)
    rep.floor('C15.R1 reverse_log accessors', n_rd, 4)

    # ---------------- R2: run vs next
    sig = {}
    from .. import inline, stepfx
    from ..pathq import edge_guards
    V = inline.View(fx)
    for fn in ('state::State::run', 'state::State::next'):
        fx.need(fn)
        f = V(fn)       # an unnamed step helper between the driver and fetch_and_run is looked through
        cs = set()
        for bb, t in f.calls():
            c = callee_of(t)
            if c and c.startswith('state::'):
                cs.add(c)
                # what the closures handed to combinators call counts as called by the driver (map_err closure == if-let body)
            for a in t['args']:
                for x in expr_walk(f.expr_of_operand(a)):
                    if isinstance(x, tuple) and x[0] == 'closure' and x[1] in fx.fns:
                        cs |= {callee_of(t2) for _, t2 in fx.fns[x[1]].calls() if callee_of(t2) and callee_of(t2).startswith('state::')}
        clos = set()
        # guard: fetch_and_run runs only if is_running() was true
        fb = [bb for bb, t in f.calls() if callee_of(t) == 'state::State::fetch_and_run']
        guarded = bool(fb) and all(any(isinstance(e, tuple) and e[0] == 'call' and e[1] == 'state::State::is_running' and side
                                       for (_b, e, side) in edge_guards(f, x)) for x in fb)
        recorded, prop, how = stepfx.step_error_recorded(fx, f)
        sig[fn] = (frozenset(cs), frozenset(clos), guarded, prop)
    a, b = sig['state::State::run'], sig['state::State::next']
    same = a[0] == b[0] and a[1] == b[1]
    rep.add('C15.R2', 'C15.R2:run~next:same-step', same,
            'run and next call the same State functions %s with the same error recorder %s' % (sorted(short(x) for x in a[0]), sorted(short(x) for x in a[1]))
            if same else 'run and next differ per step: run calls %s (+%s), next calls %s (+%s)' %
            (sorted(short(x) for x in a[0] - b[0]), sorted(short(x) for x in a[1] - b[1]), sorted(short(x) for x in b[0] - a[0]), sorted(short(x) for x in b[1] - a[1])),
            'state::State::run', fx.fns['state::State::run'].j['span'])
    for fn in sig:
        rep.add('C15.R2', 'C15.R2:%s:guarded-and-propagating' % fn, sig[fn][2] and sig[fn][3],
                'fetch_and_run runs only while is_running() and its error is propagated' if sig[fn][2] and sig[fn][3] else
                '%s: guard=%s error-propagated=%s' % (short(fn), sig[fn][2], sig[fn][3]), fn, fx.fns[fn].j['span'])
    # run loops: back edge exists in run, none in next
    from ..pathq import natural_loops
    rl, nl = natural_loops(fx.fns['state::State::run']), natural_loops(fx.fns['state::State::next'])
    rep.add('C15.R2', 'C15.R2:run-loops-next-single', bool(rl) and not nl, 'run iterates the step, next performs one' if rl and not nl else
            'loop structure unexpected (run loops=%d next loops=%d)' % (len(rl), len(nl)), 'state::State::run', fx.fns['state::State::run'].j['span'], nontrivial=False)

    # eval vs compile: same entry, constant mode
    modes = {}
    for fn in ('state::State::evalxstr', 'state::State::compile_xstr', 'state::State::eval_file', 'state::State::compile_file'):
        f = fx.need(fn)
        calls = [(callee_of(t), t) for _, t in f.calls() if callee_of(t) and callee_of(t).startswith('state::State::build_from')]
        if len(calls) != 1:
            rep.add('C15.R2', 'C15.R2:%s:single-build-entry' % fn, False, '%s does not forward to exactly one build entry' % short(fn), fn, f.j['span'])
            continue
        c, t = calls[0]
        m = None
        for a_ in t['args']:
            for x in expr_walk(f.expr_of_operand(a_)):
                if isinstance(x, tuple) and x[0] == 'agg' and x[1] == 'state::ContextMode':
                    m = x[2]
        modes[fn] = (c, m)
    for ev, co in (('state::State::evalxstr', 'state::State::compile_xstr'), ('state::State::eval_file', 'state::State::compile_file')):
        if ev in modes and co in modes:
            ok = modes[ev][0] == modes[co][0] and modes[ev][1] == 'Eval' and modes[co][1] == 'Compile'
            rep.add('C15.R2', 'C15.R2:%s~%s' % (short(ev), short(co)), ok,
                    'both are %s with mode Eval resp. Compile' % short(modes[ev][0]) if ok else 'eval/compile do not share one build entry: %s vs %s' % (modes[ev], modes[co]),
                    ev, fx.fns[ev].j['span'])
    # a context never starts at the ip of the one around it.  That ip is not only "what is still pending": while an instruction
    # is in flight (a host word that calls eval) it is that very instruction, and while a source is being built (an immediate host
    # word that calls eval) it is the start of the half-built code.  A context starts at the end of all code - its own code.
    # (An earlier repair, 63fc06a, did the opposite for compile(A); eval(B) and was taken back: DESIGN 9.3 / 9.5.)
    co = inline.thread_fn(fx.need('state::State::context_open'))
    from ..core import op_place
    inherits = []
    for bb in co.reachable_blocks():
        for st in co.blocks[bb]['stmts']:
            if st['k'] != 'assign' or st['rv']['k'] != 'use':
                continue
            pl = op_place(st['rv']['o'])
            names = [x.get('f') for x in (pl or {}).get('p', []) if isinstance(x, dict)]
            if pl and 'ctx' in names and names[-1:] == ['ip']:
                inherits.append(st.get('at'))
    rep.add('C15.R2', 'C15.R2:context_open:starts-at-its-own-code', not inherits,
            'context_open does not read the ip of the enclosing context: every context starts at the end of all code' if not inherits else
            'context_open reads the ip of the enclosing context (%s): a context that starts there re-enters the instruction in flight when a '
            'host word calls eval (native stack overflow), and runs the half-built source when an immediate host word does' % inherits[0],
            co.name, co.j['span'])
    # who compares ctx.mode with Eval / Compile
    n_cmp = 0
    for fn in sorted(fx.fns):
        f = fx.fns[fn]
        for bb, t in f.calls():
            if callee_of(t) == '<state::ContextMode as core::cmp::PartialEq>::eq':
                txt = ' '.join(expr_str(f.expr_of_operand(a_), -20) for a_ in t['args'])
                pm = []
                for a_ in t['args']:
                    for x in expr_walk(f.expr_of_operand(a_)):
                        if isinstance(x, tuple) and x[0] == 'const' and x[1].get('pm'):
                            pm += x[1]['pm']
                        if isinstance(x, tuple) and x[0] == 'agg' and x[1] == 'state::ContextMode':
                            pm.append(x[2])
                which = [m for m in ('Eval', 'Compile', 'MetaEval') if any(p.endswith('::' + m) or p == m for p in pm)]
                if 'Eval' in which or 'Compile' in which:
                    n_cmp += 1
                    # ... or a private helper that only these two use (the 'leave the context' tail pulled out of context_close)
                    ok = _roots_of(fx, fn) <= {'state::State::context_close', 'state::State::context_open'}
                    rep.add('C15.R2', 'C15.R2:mode-compare:%s:%s' % (fn, '|'.join(which)), ok,
                            'the single place where Eval differs from Compile (run on close)' if ok else
                            '%s behaves differently in Eval and Compile mode: eval is no longer compile + run' % short(fn), fn, t.get('at'))
    rep.floor('C15.R2 Eval/Compile mode comparisons', n_cmp, 1)

    # a program that fails while `eval` runs it ends up where `compile` + `run` would leave it: built, context left, halted.
    # In context_close the Eval-mode run() must, on its Err side, pop the saved context and restore State.ctx before the
    # error is returned - otherwise the caller's roll-back treats the failed *run* as a rejected *build* (data stack cut
    # back, definitions dropped), which compile + run never does.
    from ..pathq import exists_path_avoiding
    fx.need('state::State::context_close')
    cc = V('state::State::context_close')
    tracked_ = awrite.state_tracked(fx)
    wcc = awrite.field_writes(fx, cc, tracked_)
    restore = {w['bb'] for w in wcc if w['field'] == ('ctx',)}
    pops = {w['bb'] for w in wcc if w['field'][0] == 'nested' and w['how'].startswith('call:shrink')}
    rets = set(cc.return_blocks())
    n_run = 0
    for bb, t in cc.calls():
        if callee_of(t) != 'state::State::run':
            continue
        mode = None
        for (b2, e, side) in edge_guards(cc, bb):
            if isinstance(e, tuple) and e[0] == 'call' and e[1] == '<state::ContextMode as core::cmp::PartialEq>::eq' and side:
                for x in expr_walk(e):
                    if isinstance(x, tuple) and x[0] == 'const' and x[1].get('pm'):
                        for m in x[1]['pm']:
                            if m.startswith('state::ContextMode::'):
                                mode = m.split('::')[-1]
        if mode != 'Eval':
            continue
        n_run += 1
        # blocks from which only the Err outcome of this run() continues: the Err target of the test of its result
        dest = t['dest']['l']
        err_targets = []
        for b2 in cc.reachable_blocks():
            tt = cc.blocks[b2]['term']
            if tt['k'] != 'switch':
                continue
            e = cc.expr_of_operand(tt['discr'])
            if not (isinstance(e, tuple) and e[0] == 'discr'):
                continue
            if not any(isinstance(x, tuple) and x[0] == 'call' and x[1] == 'state::State::run' and x[3] == cc.obb(bb) for x in expr_walk(e[1])):
                continue
            listed = dict((v, tg) for v, tg in tt['targets'])
            if e[2] == 'core::result::Result':
                err_targets.append(listed.get(1, tt['otherwise'] if 1 not in listed else None))
            elif e[2] == 'core::ops::control_flow::ControlFlow':
                err_targets.append(listed.get(1, tt['otherwise'] if 1 not in listed else None))
        err_targets = [x for x in err_targets if x is not None]
        ok = bool(err_targets)
        why = 'the result of the Eval-mode run() is not tested in context_close'
        for et in err_targets:
            p1 = exists_path_avoiding(cc, et, lambda b: b in rets, restore) if et not in restore else None
            p2 = exists_path_avoiding(cc, et, lambda b: b in rets, pops) if et not in pops else None
            if p1 is not None or p2 is not None:
                ok = False
                why = ('a run-time failure under eval returns from context_close without leaving the context (bb%s): the roll-back of the build '
                       'entry then discards the data stack and the definitions of a program that compile + run would have kept'
                       % '->bb'.join(map(str, (p1 or p2)[:8])))
            elif ok:
                why = 'on Err the saved context is popped and restored before the error is returned (built, failed at run: halted, not rolled back)'
        rep.add('C15.R2', 'C15.R2:eval:failed-run-leaves-context-like-compile+run', ok, why, cc.name, t.get('at'))
        # ... stopped at the failing instruction, as compile + run leaves it: the ip of the context that is left is carried into
        # the one that is restored (some assignment to an `ip` field on the Err side takes its value from ctx.ip)
        carried = []
        for et in err_targets:
            seen, todo = set(), [et]
            while todo:
                b2 = todo.pop()
                if b2 in seen:
                    continue
                seen.add(b2)
                for i2, st in enumerate(cc.blocks[b2]['stmts']):
                    if st.get('k') != 'assign' or not st['lhs']['p']:
                        continue
                    last = st['lhs']['p'][-1]
                    if not (isinstance(last, dict) and last.get('f') == 'ip'):
                        continue
                    rv = st['rv']
                    src = expr_str(cc.expr_of_operand(rv['o']), -12) if rv.get('k') == 'use' else ''
                    if 'ctx.ip' in src:
                        carried.append((b2, st.get('at')))
                todo += list(cc.succ(b2))
        okc = bool(carried)
        rep.add('C15.R2', 'C15.R2:eval:failed-run-stops-at-the-failing-instruction', okc,
                'on Err the ip of the context that is left is carried into the restored one (%s)' % carried[0][1] if okc else
                'a run-time failure under eval restores the enclosing context with the ip it had when the source was opened: the program is '
                'not stopped at the failing instruction as compile + run leaves it (and the halt that follows records the wrong ip on the '
                'reverse log)', cc.name, t.get('at'))
    rep.floor('C15.R2 Eval-mode run() in context_close', n_run, 1)

    # ... and stays there: the function that rolls a rejected source back leaves a source that was built and failed while running
    # alone (the branch behind `no context of this source is open any more`).  Halting it there or dropping its frames makes
    # eval differ from compile + run: after a limit was hit the host raises it and continues with run() - under compile + run the
    # program goes on, under eval it would have been ended silently.  (The next *source* ends it: C10.R2.)
    from .c10 import built_blocks, halt_sites
    halters = {fn for fn in fx.fns if fn.startswith('state::') and halt_sites(fx, W, fx.fns[fn], W.get(fn, []))}
    n_built = 0
    direct = {fn for fn, ws in W.items() if fn in fx.fns and any(w['field'][0] == 'nested' and w['how'].startswith('call:shrink') for w in ws)}
    cg = fx.callgraph()
    cands = direct | {fn for fn in fx.fns if fn.startswith('state::') and set(cg.get(fn, ())) & direct}
    for fn in sorted(cands):
        # the test may stand in the function that rolls back or in its caller (`if nested.len() > depth { self.rollback(mark) }`)
        f = V(fn)
        ws = awrite.field_writes(fx, f, tracked_) if f is not fx.fns.get(fn) else W.get(fn, [])
        if not any(w['field'][0] == 'nested' and w['how'].startswith('call:shrink') for w in ws):
            continue
        built = built_blocks(f)
        if not built:
            continue
        n_built += 1
        bad = [h['at'] for h in halt_sites(fx, W, f, ws) if h['bb'] in built]
        for bb, t2 in f.calls():
            c = callee_of(t2) or ''
            if bb in built and c.startswith('state::') and (fx.reachable_from([c]) | {c}) & halters:
                bad.append('%s (calls %s)' % (t2.get('at'), short(c)))
        bad += [w['at'] for w in ws if w['bb'] in built and w['field'][0] in ('return_stack', 'loops', 'special') and w['how'].startswith('call:shrink')]
        rep.add('C15.R2', 'C15.R2:eval:failed-run-stays-continuable:%s' % short(fn), not bad,
                'the path of a built source through %s neither halts the program nor drops its frames' % short(fn) if not bad else
                '%s ends a source that was built and failed while running (%s): after `set_insn_limit(5); eval("1 2 3 4 5 6 7 8")` fails and the '
                'limit is raised, run() does nothing and returns Ok, where the same program under compile + run continues' % (short(fn), bad[0]),
                fn, f.j['span'])
    rep.floor('C15.R2 roll-back functions with a built-source path', n_built, 1)

    # a user-defined immediate word is run at build time with run(): the frame it returns into must make the VM stop (return
    # address = end of the code), otherwise run() carries on with the half-built program of the current source - code that
    # eval keeps "already executed" and compile later runs again - and the ip of the enclosing context is given back afterwards
    ri = fx.fns.get('state::State::run_immediate')
    if ri is None:
        raise MissingAnchor('state::State::run_immediate')
    riv = V('state::State::run_immediate')
    rets_to = []
    for bb in riv.reachable_blocks():
        for st in riv.blocks[bb]['stmts']:
            if st['k'] == 'assign' and st['rv']['k'] == 'agg' and st['rv'].get('adt') == 'state::Frame':
                names = st['rv'].get('fnames', [])
                if 'return_to' in names:
                    rets_to.append((expr_str(riv.expr_of_operand(st['rv']['fields'][names.index('return_to')]), -20), st.get('at')))
    okr = bool(rets_to) and all(('code_origin' in e or ('::len' in e and '.code' in e)) for e, _ in rets_to)
    rep.add('C15.R2', 'C15.R2:run_immediate:returns-to-end-of-code', okr,
            'the immediate word returns to the end of the code: run() stops when it is done' if okr else
            'run_immediate lets the word return to %s: run() then executes the part of the current source that is already compiled, at '
            'build time (`: x immediate 1 ; 5 x 6` leaves 1 5 5 6 under compile + run, 1 5 6 under eval)' % [e[:40] for e, _ in rets_to],
            ri.name, (rets_to or [(0, ri.j['span'])])[0][1])

# as-built addendum
EXPLANATION += " As built (DESIGN 9.2): R1 also: readers of the log are the debugger words and the context open/close marks (through length-mark accessors). R2 also: a failed run under eval leaves the context like compile+run, stopped at the failing instruction and continuable; an immediate word returns to the end of the code and the builder's ip is restored; a context never starts at the ip of the enclosing one."
