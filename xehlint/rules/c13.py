"""C13 — tags never change what a value does.

R1 no raw variant test on a possibly-tagged cell in any word; R2 Cell::value /
eq / ordering look through the wrapper; R3 fresh results carry no tags (who may
construct WithTag); R4 who may read tags."""
from ..core import callee_of, expr_walk, expr_str, short, op_place, runtime_targets, immediate_targets, MissingAnchor

EXPLANATION = (
    "A tag can only change behaviour where code looks at the WithTag wrapper instead of through it. Over every function "
    "reachable from the decoded word registry (defword/def_immediate/code_emit_call_native targets, transitive call "
    "graph): R1 every SwitchInt on the discriminant of a cell::Cell is classified by the provenance of its scrutinee - "
    "reached through Cell::value() (fine), tag-aware (has an explicit WithTag arm), or raw (violation unless it is one "
    "of two reviewed single-symbol exceptions); R2 Cell::value's WithTag arm returns the inner value and with_tags "
    "stores value().clone() so wrappers never nest; R3 every call of with_tags/insert_tag/remove_tag and every WithTag "
    "aggregate is in the set {tag words, fmt words, binary readers, open-bitstr stash, let-pattern assert message}; "
    "R4 every caller of Cell::tags/get_tag/parse_fmt_flags is a tag word, the printing path, the assert-message lookup or "
    "close-bitstr. Decides (necessary, and sufficient for words that never see the wrapper) that tagged and untagged "
    "arguments take the same paths; does not decide value-level equality of results.")
RULE_TEXT = ("instances = every discriminant switch on cell::Cell in registry-reachable functions (scrutinee provenance "
             "traced through MIR def-use), every WithTag producer call site, every tag reader call site; non-trivial = "
             "needed provenance tracing")
ASSUMPTIONS = [
    "rustc MIR / Instance resolution correct; word registry decoding sees every defword/def_immediate call (floor-checked)",
    "WithTag fields are private to cell.rs (no other module can read the wrapper directly)",
]

VALUE = 'cell::Cell::value'
TAG_AWARE_OK = 'has an explicit WithTag arm (tag-aware)'

# functions that look AT the wrapper (explicit WithTag arm): each is classified; an unlisted one needs review
TAG_AWARE = {
    'cell::Cell::value': 'strips the wrapper',
    'cell::Cell::tags': 'reveals tags - callers restricted by R4',
    'cell::Cell::type_name': 'reveals "tag" for a tagged cell - callers restricted by R4',
    '<cell::Cell as core::clone::Clone>::clone': 'preserves the cell as is',
    '<cell::Cell as core::fmt::Debug>::fmt': 'printing (honours the formatting tag)',
}

RAW_EXCEPTIONS = {
    'state::State::load_value_opcode': 'non-default arms (Int/Str/Nil) are value-preserving re-encodings; a tagged cell takes the default LoadCell path with tags intact',
    'state::filename_literal': 'scrutinee is a Tok::Literal fresh from the lexer, which never carries tags',
}

PRODUCERS = {'cell::Cell::with_tags', 'cell::Cell::insert_tag', 'cell::Cell::remove_tag'}
PRODUCER_CALLERS = {
    'cell::Cell::insert_tag': 'tag primitive', 'cell::Cell::remove_tag': 'tag primitive',
    'state::core_word_with_tags': 'tag word with-tags', 'state::core_word_insert_tag': 'tag word insert-tag',
    'state::core_word_remove_tag': 'tag word remove-tag', 'state::update_fmt_flags': 'formatting words (#fmt tag)',
    'bitstr_ext::read_unsigned': 'binary reader attaches len/big tags (statement anchor)',
    'bitstr_ext::read_signed': 'binary reader attaches len/big tags (statement anchor)',
    'bitstr_ext::read_float': 'binary reader attaches len/big tags (statement anchor)',
    'bitstr_ext::open_bitstr': 'stash element tagged with the suspended offset (internal variable)',
    'state::build_let_vec': 'assert-message tag on the compiled length literal of a let pattern',
}
READERS = {'cell::Cell::tags', 'cell::Cell::get_tag', 'state::State::parse_fmt_flags', 'cell::Cell::type_name'}
READER_CALLERS = {
    'cell::Cell::insert_tag': 'tag primitive', 'cell::Cell::remove_tag': 'tag primitive', 'cell::Cell::get_tag': 'tag primitive',
    'state::core_word_tags': 'tag word tags', 'state::core_word_get_tag': 'tag word get-tag',
    'state::State::parse_fmt_flags': 'printing path', 'state::State::format_cell': 'printing path',
    'state::State::format_cell_safe': 'printing path', 'state::update_fmt_base': 'fmt word', 'state::with_fmt_prefix': 'fmt word',
    'state::update_fmt_tags': 'fmt word', 'state::update_fmt_upcase': 'fmt word',
    'error::assert_get_msg': 'assert-message lookup when formatting AssertEqFailed',
    'bitstr_ext::word_close_bitstr': 'reads the offset tag of its own stash element',
    '<error::Xerr as core::fmt::Display>::fmt': 'error formatting prints the type name of the offending value (printing path)',
    'state::core_word_str_to_num': 'reviewed exception: str>number reads the #fmt tag as its input radix (inverse of printing; pinned by test_str_to_num)',
}


# the stack primitives move or copy a cell as it is — tags included — by definition; they compute nothing
STACK_SHUFFLERS = {
    'state::State::dup_data': 'dup copies the top cell as it is', 'state::State::over_data': 'over copies the second cell as it is',
    'state::State::swap_data': 'swap moves cells', 'state::State::rot_data': 'rot moves cells',
}


def _only_called_by(fx, fn, table, roots, depth=3, _seen=()):
    """a helper that is not itself a word and whose every caller is a reviewed site (or such a helper in turn):
    the reviewed sites it was extracted from; None if some caller is not"""
    if fn in roots or depth == 0 or fn in _seen:
        return None
    callers = sorted(fx.callers().get(fn, ()))
    if not callers:
        return None
    out = []
    for c in callers:
        if c in table:
            out.append(c)
            continue
        sub = _only_called_by(fx, c, table, roots, depth - 1, _seen + (fn,))
        if sub is None:
            return None
        out += sub
    return sorted(set(out))


def _whole_pop(e, depth=0):
    """does e denote (a clone of) a whole cell obtained from pop_data/top_data?"""
    from ..core import unwrap_value
    e = unwrap_value(e)
    if isinstance(e, tuple) and e[0] == 'call' and e[1] in ('state::State::pop_data', 'state::State::top_data'):
        return True
    if isinstance(e, tuple) and e[0] == 'phi' and depth < 4:
        return any(_whole_pop(x, depth + 1) for x in e[1])
    return False


def registry_reach(fx):
    roots = set(runtime_targets(fx)) | set(immediate_targets(fx))
    roots.add('state::State::fetch_and_run')
    extra = {'state::State::fetch_and_run': runtime_targets(fx), 'state::State::run_immediate': immediate_targets(fx)}
    return roots, fx.reachable_from(roots, extra_edges=extra), extra


def _from_value(pe):
    """(derives from a Cell::value() result?, where the walk stopped)"""
    cur = pe
    via_value = False
    hops = 0
    while isinstance(cur, tuple) and hops < 50:
        hops += 1
        if cur[0] == 'call':
            if cur[1] == VALUE:
                via_value = True
                break
            # tuple field of an aggregate of value() results is handled by 'agg'
            break
        if cur[0] in ('ref', 'cast'):
            cur = cur[2]
        elif cur[0] == 'proj':
            base = cur[1]
            # projection into a tuple aggregate: pick the field
            if isinstance(base, tuple) and base[0] == 'agg' and base[1] == 'tuple':
                idx = [p for p in cur[2] if p.isdigit()]
                if idx and int(idx[0]) < len(base[3]):
                    cur = base[3][int(idx[0])]
                    continue
            cur = base
        elif cur[0] == 'phi':
            # all alternatives must come from value()
            alts = cur[1]
            if alts and all(any(isinstance(x, tuple) and x[0] == 'call' and x[1] == VALUE for x in expr_walk(a)) for a in alts):
                via_value = True
            break
        else:
            break
    return via_value, cur


def _closure_param_exprs(fx, cname, n):
    """[(Fn g, expr)]: what is passed as parameter n of closure `cname` by each local function the closure is handed to
    (None if it is handed to a function whose body we do not have)"""
    from ..logfx import _closure_of, CALL_ONCE
    parent = cname.rsplit('::{closure', 1)[0]
    pf = fx.fns.get(parent)
    if pf is None:
        return None
    out = []
    for bb, t in pf.calls():
        for k, a in enumerate(t['args']):
            c = _closure_of(pf.expr_of_operand(a))
            if c is None or c[0] != cname:
                continue
            g = fx.fns.get(callee_of(t) or '')
            if g is None:
                return None
            found = False
            for bb2, t2 in g.calls():
                if callee_of(t2) in CALL_ONCE and len(t2['args']) == 2:
                    who = g.expr_of_operand(t2['args'][0])
                    while isinstance(who, tuple) and who[0] in ('ref', 'cast'):
                        who = who[2]
                    if not (isinstance(who, tuple) and who[0] == 'arg' and who[1] == k + 1):
                        continue
                    tup = g.expr_of_operand(t2['args'][1])
                    if isinstance(tup, tuple) and tup[0] == 'agg' and len(tup[3]) >= n - 1:
                        out.append((g, tup[3][n - 2]))
                        found = True
            if not found:
                return None
    return out


def scrutinee_class(f, sw_bb, fx=None):
    """classify the scrutinee of a Cell discriminant switch: ('value'|'aware'|'raw', detail)"""
    t = f.blocks[sw_bb]['term']
    e = f.expr_of_operand(t['discr'])
    if not (isinstance(e, tuple) and e[0] == 'discr'):
        return None
    pe = e[1]
    variants = None
    for b2 in f.reachable_blocks():
        for st in f.blocks[b2]['stmts']:
            if st['k'] == 'assign' and st['rv']['k'] == 'discr' and st['rv'].get('adt') == 'cell::Cell':
                variants = dict(st['rv']['variants'])
    arms = []
    for v, tgt in t['targets']:
        arms.append(variants.get(v, str(v)) if variants else str(v))
    # provenance: does the place derive from a Cell::value() result?
    via_value, cur = _from_value(pe)
    if not via_value and fx is not None and isinstance(cur, tuple) and cur[0] == 'arg' and cur[1] >= 2 and '{closure' in f.name:
        # the scrutinee is a parameter of a closure: look at what the function that invokes the closure passes
        srcs = _closure_param_exprs(fx, f.name, cur[1])
        if srcs and all(_from_value(e)[0] for (_g, e) in srcs):
            via_value = True
    if via_value:
        return 'value', arms, expr_str(pe)
    if 'WithTag' in arms:
        return 'aware', arms, expr_str(pe)
    return 'raw', arms, expr_str(pe)


RAW_REQUIRED = {
    'state::State::load_value_opcode': 'matches on the cell as it is: a tagged cell falls to LoadCell with its tags',
}


def run(rep, facts, tier):
    fx = facts['dev']
    rep.rule('C13.R1', 'no raw variant test on a possibly-tagged cell: every Cell discriminant switch in a word goes through Cell::value() or has a WithTag arm')
    rep.rule('C13.R2', 'Cell::value strips the wrapper; with_tags never nests wrappers; eq/ordering switch only on value() results')
    rep.rule('C13.R3', 'fresh results carry no tags: WithTag is produced only by the tag/fmt words, the binary readers and two internal sites')
    rep.rule('C13.R4', 'who may read tags: tag words, printing path, assert-message lookup, close-bitstr')
    roots, reach, extra = registry_reach(fx)
    rep.floor('C13 registry words', len(fx.registry()['words']), 230)
    rep.extra['registry_reachable_fns'] = len([r for r in reach if r in fx.fns])

    n_sw = 0
    # the host API looks at values too: its type tests and accessors are words by another door
    capi = {fn for fn in fx.fns if fn.startswith('c_api::')}
    rep.floor('C13.R1 functions of the C API', len(capi), 10)
    for fn in sorted(set(reach) | capi):
        f = fx.fns.get(fn)
        if f is None:
            continue
        for bb in sorted(f.reachable_blocks()):
            t = f.blocks[bb]['term']
            if t['k'] != 'switch':
                continue
            e = f.expr_of_operand(t['discr'])
            if not (isinstance(e, tuple) and e[0] == 'discr' and e[2] == 'cell::Cell'):
                continue
            cls = scrutinee_class(f, bb, fx)
            if cls is None:
                continue
            kind, arms, ptxt = cls
            n_sw += 1
            key = 'C13.R1:%s:arms=%s' % (fn, '|'.join(sorted(set(arms))))
            if kind == 'value':
                rep.add('C13.R1', key, True, 'scrutinee is the result of Cell::value()', fn, f.at(bb))
            elif kind == 'aware':
                ok_aw = fn in TAG_AWARE
                rep.add('C13.R1', key, ok_aw, TAG_AWARE_OK + ': ' + TAG_AWARE[fn] if ok_aw else
                        '%s tests for the WithTag wrapper explicitly: its result can differ between a tagged and an untagged argument '
                        '(not one of the reviewed tag-aware functions)' % short(fn), fn, f.at(bb), nontrivial=False)
            elif fn in RAW_EXCEPTIONS:
                rep.add('C13.R1', key, True, 'reviewed exception: ' + RAW_EXCEPTIONS[fn], fn, f.at(bb))
            else:
                chain = fx.call_path(roots, fn, extra_edges=extra)
                rep.add('C13.R1', key, False,
                        'raw match on a cell (%s) with arms %s and no WithTag arm: a tagged argument falls into the default arm '
                        '(reachable from word registry via %s)' % (ptxt[:80], '|'.join(arms), ' -> '.join(short(c) for c in (chain or [fn])[-3:])),
                        fn, f.at(bb))
    rep.floor('C13.R1 Cell discriminant switches in words', n_sw, 40)
    # the other direction: where a value is STORED (compiled into the code as a constant), looking through the tags loses them.
    # The function that picks the load instruction matches on the cell as it is, so that a tagged cell takes the generic
    # LoadCell path; its compact encodings (LoadI64 / LoadStr / LoadNil) cannot hold a tag map
    for fn, why_raw in sorted(RAW_REQUIRED.items()):
        f = fx.need(fn)
        kinds = []
        for bb in sorted(f.reachable_blocks()):
            t = f.blocks[bb]['term']
            if t['k'] != 'switch':
                continue
            e = f.expr_of_operand(t['discr'])
            if isinstance(e, tuple) and e[0] == 'discr' and e[2] == 'cell::Cell':
                cls = scrutinee_class(f, bb, fx)
                if cls:
                    kinds.append(cls[0])
        okr = bool(kinds) and all(k == 'raw' for k in kinds) and not any(callee_of(t) == VALUE for _, t in f.calls())
        rep.add('C13.R3', 'C13.R3:%s:stored-value-keeps-its-tags' % fn, okr,
                why_raw if okr else
                '%s looks through the tags of the value it stores (switch kinds %s): `#( 5 ^{ 1 "k" ^} const FIVE #) FIVE tags` gives nil - the '
                'compact load instructions have no room for a tag map' % (short(fn), kinds or ['none']), fn, f.j['span'])

    # R2: shape of Cell::value and with_tags
    vf = fx.need(VALUE)
    ok = False
    why = 'Cell::value has no WithTag arm'
    for bb in vf.reachable_blocks():
        t = vf.blocks[bb]['term']
        if t['k'] == 'switch':
            cls = scrutinee_class(vf, bb, fx)
            if cls and 'WithTag' in cls[1]:
                # the WithTag arm must return a reference into field `value`
                for (b0, i0, kind, payload) in vf.defs().get(0, []):
                    if kind == 'assign':
                        ex = vf.expr_of_rvalue(payload, 0, frozenset())
                        projs = [x for x in expr_walk(ex) if isinstance(x, tuple) and x[0] == 'proj']
                        if any('value' in x[2] for x in projs) and any('as WithTag' in x[2] for x in projs):
                            ok = True
                            why = 'WithTag arm returns a reference to the wrapped value (&rc.value)' 
    rep.add('C13.R2', 'C13.R2:cell::Cell::value:strips-wrapper', ok, why, VALUE, vf.j['span'])
    wf = fx.need('cell::Cell::with_tags')
    ok = False
    why = 'no WithTag aggregate found in with_tags'
    n_agg = 0
    for fn, f in fx.fns.items():
        for bb in f.reachable_blocks():
            for st in f.blocks[bb]['stmts']:
                if st['k'] == 'assign' and st['rv']['k'] == 'agg' and st['rv'].get('adt') == 'cell::WithTag':
                    n_agg += 1
                    rv = st['rv']
                    names = rv.get('fnames', [])
                    vi = names.index('value') if 'value' in names else None
                    if vi is not None:
                        e = f.expr_of_operand(rv['fields'][vi])
                        thru = any(isinstance(x, tuple) and x[0] == 'call' and x[1] == VALUE for x in expr_walk(e))
                        rep.add('C13.R2', 'C13.R2:%s:WithTag.value-from-value()' % fn, thru,
                                'the wrapped value is value().clone(): wrappers never nest, tags on tags collapse' if thru else
                                'WithTag{value} is built from %s, not from value(): wrappers can nest and value() would return a tagged cell' % expr_str(e)[:60],
                                fn, st.get('at'))
                    ok_site = fn == 'cell::Cell::with_tags'
                    rep.add('C13.R3', 'C13.R3:WithTag-aggregate:%s' % fn, ok_site,
                            'the only constructor of the wrapper' if ok_site else '%s constructs WithTag directly' % fn, fn, st.get('at'),
                            nontrivial=False)
    rep.floor('C13 WithTag aggregates', n_agg, 1)
    # "no tags" has one representation.  A wrapper with an empty map reads as { } where the plain value reads as nil (`tags nil?`,
    # `let ^ { }`): the function that takes a tag away wraps only what still has one
    from ..pathq import edge_guards
    rt = fx.need('cell::Cell::remove_tag')
    wraps = [(bb, t) for bb, t in rt.calls() if callee_of(t) == 'cell::Cell::with_tags']
    bad_w = []
    for bb, t in wraps:
        e = rt.expr_of_operand(t['args'][1])
        fresh = any(isinstance(x, tuple) and x[0] == 'call' and x[1].endswith('::new') and not x[2] for x in expr_walk(e))
        nonempty = any(isinstance(g, tuple) and g[0] == 'call' and g[1].endswith('::is_empty') and not side for (_, g, side) in edge_guards(rt, bb))
        if fresh or not nonempty:
            bad_w.append('wraps a new empty map' if fresh else 'wraps what is left without testing that anything is left')
    rep.add('C13.R2', 'C13.R2:cell::Cell::remove_tag:no-empty-wrapper', not bad_w,
            'remove_tag wraps the remaining tags only when some remain (%d wrapping site(s))' % len(wraps) if not bad_w else
            'remove_tag %s: `1 "k" remove-tag tags` gives { } where `1 tags` gives nil, and a value that lost its last tag still counts as tagged'
            % '; '.join(sorted(set(bad_w))), rt.name, rt.j['span'])

    # R3: producer call sites
    n_p = 0
    for fn in sorted(fx.fns):
        f = fx.fns[fn]
        for bb, t in f.calls():
            c = callee_of(t)
            if c in PRODUCERS:
                n_p += 1
                inreach = fn in reach
                ok = fn in PRODUCER_CALLERS or not inreach
                via = None
                if not ok:
                    via = _only_called_by(fx, fn, PRODUCER_CALLERS, roots)
                    ok = via is not None
                rep.add('C13.R3', 'C13.R3:%s->%s' % (fn, short(c)), ok,
                        (PRODUCER_CALLERS.get(fn) or ('helper called only by ' + ', '.join(short(v) for v in via) if via else 'not reachable from any word')) if ok else
                        '%s attaches tags to a computed result (calls %s): fresh results must carry no tags' % (fn, short(c)),
                        fn, t.get('at'), nontrivial=inreach)
            if c in READERS:
                inreach = fn in reach
                ok = fn in READER_CALLERS or not inreach
                via = None
                if not ok:
                    via = _only_called_by(fx, fn, READER_CALLERS, roots)
                    ok = via is not None
                rep.add('C13.R4', 'C13.R4:%s->%s' % (fn, short(c)), ok,
                        (READER_CALLERS.get(fn) or ('helper called only by ' + ', '.join(short(v) for v in via) if via else 'not reachable from any word')) if ok else
                        '%s reads the tags of its argument (calls %s): its behaviour can depend on tags' % (fn, short(c)),
                        fn, t.get('at'), nontrivial=inreach)
    rep.floor('C13.R3 tag producer call sites', n_p, 8)
    # R3 (pass-through): no word hands a whole popped cell back as its "result": a computed result is built
    # from the untagged value, so it cannot inherit the argument's tags
    from ..core import unwrap_value
    assert _whole_pop(('call', 'core::clone::Clone::clone', (('ref', False, ('call', 'state::State::pop_data', (), 3)),), 4)), 'self-test'
    assert not _whole_pop(('call', 'cell::Cell::to_xint', (('call', 'state::State::pop_data', (), 3),), 4)), 'self-test'
    n_push = 0
    for fn in sorted(reach):
        f = fx.fns.get(fn)
        if f is None:
            continue
        for bb, t in f.calls():
            if callee_of(t) == 'state::State::push_data':
                n_push += 1
                e = f.expr_of_operand(t['args'][1])
                if _whole_pop(e) and fn in STACK_SHUFFLERS:
                    rep.add('C13.R3', 'C13.R3:pass-through:%s' % fn, True, STACK_SHUFFLERS[fn], fn, t.get('at'), nontrivial=False)
                elif _whole_pop(e):
                    rep.add('C13.R3', 'C13.R3:pass-through:%s' % fn, False,
                            '%s pushes back a whole cell it popped (%s): the "result" keeps the tags of that argument' % (short(fn), expr_str(e)[:70]),
                            fn, t.get('at'))
    # ... nor leaves its argument where it is: a word that peeks at the top cell and returns Ok on some path without popping or
    # pushing hands the caller back the tagged argument as its "result" (`255 ^hex >int` stays a hex-printing value)
    from ..pathq import exists_path_avoiding, error_blocks
    from ..core import return_defs
    STACK_EFFECT = ('state::State::push_data', 'state::State::pop_data', 'state::State::dup_data', 'state::State::swap_data',
                    'state::State::drop_data', 'state::State::rot_data', 'state::State::over_data')
    for w_ in fx.registry()['words']:
        fn = w_['target']
        f = fx.fns.get(fn)
        if f is None:
            continue
        tops = [bb for bb, t in f.calls() if callee_of(t) == 'state::State::top_data']
        if not tops:
            continue
        eff = {bb for bb, t in f.calls() if callee_of(t) in STACK_EFFECT}
        oks = {bb for (bb, i, cls, d) in return_defs(f) if cls == 'ok'}
        bad = None
        for tb in tops:
            pth = exists_path_avoiding(f, tb, lambda b: b in oks, eff | error_blocks(f))
            if pth:
                bad = pth
        rep.add('C13.R3', 'C13.R3:peek-and-keep:%s' % w_['name'], bad is None,
                'every Ok path after the peek pops or pushes' if bad is None else
                'word `%s` looks at the top cell and can return Ok without replacing it (bb%s): the tagged argument stays as the result'
                % (w_['name'], '->bb'.join(map(str, bad[:8]))), fn, w_['at'])
    rep.add('C13.R3', 'C13.R3:pass-through:none', True, 'none of the %d push_data sites in words hands back a whole popped cell' % n_push,
            None, None)
    rep.floor('C13.R3 push_data sites in words', n_push, 110)
    # direct reads of the private field WithTag.tags outside cell.rs accessors
    for fn in sorted(fx.fns):
        f = fx.fns[fn]
        for bb in f.reachable_blocks():
            for st in f.blocks[bb]['stmts']:
                if st['k'] != 'assign':
                    continue
                rv = st['rv']
                pl = rv.get('p') if rv['k'] in ('ref', 'discr') else op_place(rv.get('o', {})) if rv['k'] == 'use' else None
                if pl and any(isinstance(x, dict) and x.get('f') == 'tags' for x in pl['p']):
                    # is the base a WithTag?
                    if 'WithTag' in expr_str(f.expr_of_place(pl)) or 'cell::WithTag' in f.ty(pl['t']) or True:
                        base_ok = fn in ('cell::Cell::tags', '<cell::Cell as core::fmt::Debug>::fmt', 'cell::Cell::with_tags')
                        if 'rpds' in f.ty(pl['t']):
                            rep.add('C13.R4', 'C13.R4:field-read:%s' % fn, base_ok,
                                    'accessor / printer reads WithTag.tags' if base_ok else '%s reads WithTag.tags directly' % fn,
                                    fn, st.get('at'), nontrivial=False)

# as-built addendum
EXPLANATION += ' As built (DESIGN 9.2): As built: R1 covers the functions of the C API; R2 also: remove-tag never leaves an empty wrapper; R3 also: a stored constant keeps its tags and fresh results carry none.'
