"""C11 — meta-evaluation is sealed (structural part).

R1 stack floor; R2 variable gate; R3 purge on close; R4 compiling runs nothing."""
from ..core import callee_of, expr_walk, expr_str, short, op_place, MissingAnchor
from .. import awrite, inline
from ..pathq import bool_branch, cmp_of, try_continue_block, edge_guards, cmp_on_side, FLIP
from ..zone import lin
from .c13 import registry_reach

EXPLANATION = (
    "Equivalence of a program containing `#( e #)` with the program in which the block is replaced by its value is translation "
    "validation and is NOT decided (nested blocks inside builders/definitions are known to deviate; see DESIGN). Sealing is a "
    "set of gates, each a who-may-access rule decided from MIR: R1 every access to State.data_stack in a function reachable "
    "from the word registry is one of: a length read (mark), an access inside a guarded primitive whose access is dominated by "
    "a comparison with ctx.ds_len (pop/top/dup/swap/rot/over), or a slice data_stack[p..] whose start derives from a "
    "VecStackStart mark obtained through pop_special (itself floored by ctx.ss_ptr), from ctx.ds_len, or from a length minus a "
    "count checked against data_depth(); R2 every read or write of State.heap reachable from the registry sits behind the "
    "false edge of `mode == MetaEval`, and cell_ref_for_mode is called with the current mode; R3 in context_close the code/"
    "debug-map truncation and the removal of non-constant dictionary entries are guarded by the MetaEval mode test and by "
    "nothing else (besides the loop bound and the Constant test); R4 State::run is called only from run/next/context_close/"
    "build1/run_immediate, and in context_close/build1 only under a mode test (compile executes nothing).")
RULE_TEXT = ("instances = data_stack / heap access events in registry-reachable functions, guard sets of the purge "
             "statements, callers of run; non-trivial = provenance of slice bounds / control-dependence sets")
ASSUMPTIONS = ["rustc MIR / Instance resolution correct", "A-LATE (`late` cannot bind an immediate word at run time) is decided by R4 late-binding-refuses-build-time-words since the audit that refuted it as an assumption",
               "programs without user-defined immediate words (the property's quantifier)"]

GUARDED = {'state::State::pop_data', 'state::State::top_data', 'state::State::dup_data', 'state::State::swap_data',
           'state::State::rot_data', 'state::State::over_data'}
MARK_ONLY = 'alloc::vec::Vec::<T, A>::len'
INFRA = {
    'state::State::push_data': 'grows the stack above the floor', 'state::State::check_stack_limit': 'length read',
    'state::State::data_depth': 'len - ds_len', 'state::State::context_open': 'takes the floor mark', 'state::State::context_close': 'compares len with ds_len',
}
SLICERS = {
    'state::vec_collect_till_ptr': 2, 'state::map_collect_till_ptr': 2,   # param index carrying the start
}
COLLECT_OK = {'state::core_word_collect': 'start = len - n with n <= data_depth() tested first'}


def guards_of(f, bb):
    """[(branch bb, expr, side)] for the branches whose one edge every path to bb takes"""
    return edge_guards(f, bb)


def _guarded_in_every_caller(fx, fn, guarded_at, depth=0):
    """a private helper that is given an already vetted request (`peek_data(back)` under its callers' depth test): every call of it
    in the crate stands behind the guard - in the caller itself or, for a helper of a helper, in that one's callers"""
    f = fx.fns.get(fn)
    if f is None or f.j.get('vis') == 'pub' or '{closure' in fn:
        return False
    callers = [c for c in fx.callers().get(fn, ()) if c in fx.fns]
    if not callers or len(callers) > 8:
        return False
    for c in callers:
        g = fx.fns[c]
        if not any(callee_of(t) == fn for _, t in g.calls()):
            return False          # referenced as a function value (a registered word): nobody vets its request
        for bb, t in g.calls():
            if callee_of(t) != fn:
                continue
            if guarded_at(g, bb):
                continue
            if depth < 1 and _guarded_in_every_caller(fx, c, guarded_at, depth + 1):
                continue
            return False
    return True


def floor_guard(e, side, param_reach=False):
    """does the branch outcome establish  len > ds_len  or  len - ds_len >= k (k >= 1)?  (either
    spelling: `if len > floor {..}` or `if len <= floor {return Err}`)"""
    c = cmp_on_side(e, side)
    if c is None:
        return False
    op, a, b = c
    if op in ('Lt', 'Le'):
        op, a, b = FLIP[op], b, a
    if op not in ('Gt', 'Ge'):
        return False
    sa, sb = expr_str(a, -12), expr_str(b, -12)
    if 'ds_len' in sb and 'ds_len' not in sa:
        return op == 'Gt' or _const_ge1(b)          # len > ds_len
    if 'ds_len' in sa and ('Sub' in sa or 'data_depth' in sa):
        k = lin(b)
        if k is not None and not k[0] and (k[1] >= 1 if op == 'Ge' else k[1] >= 0):   # len - ds_len >= k
            return True
        # ... or the reach a helper was asked for: depth >= back, depth >= back + 1 (the bound is the helper's own parameter,
        # nothing of the machine state)
        leaves = [x for x in expr_walk(b) if isinstance(x, tuple) and x and x[0] in ('arg', 'call')]
        if param_reach and leaves and all(x[0] == 'arg' and x[1] >= 2 for x in leaves):
            return True
    if param_reach and 'data_depth' in sa and 'ds_len' not in sb:
        leaves = [x for x in expr_walk(b) if isinstance(x, tuple) and x and x[0] in ('arg', 'call')]
        if leaves and all(x[0] == 'arg' and x[1] >= 2 for x in leaves):
            return True
    return False


def _const_ge1(b):
    return False


def run(rep, facts, tier):
    fx = facts['dev']
    rep.rule('C11.R1', 'stack floor: words reach the data stack only through floor-guarded primitives or slices that start at a mark made inside the current context')
    rep.rule('C11.R2', 'variable gate: every heap access reachable from a word is behind `mode != MetaEval`')
    rep.rule('C11.R3', 'purge on close: code, debug map and non-constant dictionary entries of a meta block are removed, unconditionally within the MetaEval branch')
    rep.rule('C11.R4', 'compiling runs nothing: run() is called only by the drive functions and, in the builder, only under a mode test')
    roots, reach, extra = registry_reach(fx)
    tr = {'state::State': {'data_stack', 'heap'}}
    n_ds = n_heap = 0
    for fn in sorted(reach):
        f = fx.fns.get(fn)
        if f is None:
            continue
        evs = awrite.field_events(fx, f, tr)
        for ev in evs:
            fld = ev['field'][0]
            c = ev['callee'] or ''
            if fld == 'data_stack':
                n_ds += 1
                key = 'C11.R1:%s:%s' % (fn, short(c).split('::')[-1] if c else ev['how'])
                if c == MARK_ONLY:
                    rep.add('C11.R1', key, True, 'length read (mark)', fn, ev['at'], nontrivial=False)
                elif fn in GUARDED:
                    dom = f.dominators()
                    floored = False
                    for (b2, e, side) in guards_of(f, ev['bb']):
                        if floor_guard(e, side):
                            floored = True
                    rep.add('C11.R1', key, floored, 'access dominated by a comparison with ctx.ds_len' if floored else
                            '%s touches the data stack without comparing against ctx.ds_len: a meta block reaches below its floor' % short(fn), fn, ev['at'])
                elif fn in INFRA:
                    rep.add('C11.R1', key, True, INFRA[fn], fn, ev['at'], nontrivial=False)
                elif fn in SLICERS and c.endswith('::index'):
                    a = f.expr_of_operand(ev['term']['args'][1])
                    ok = any(isinstance(x, tuple) and x[0] == 'arg' and x[1] == SLICERS[fn] for x in expr_walk(a)) and 'RangeFrom' in expr_str(a, -10)
                    rep.add('C11.R1', key, ok, 'slice data_stack[ptr..] from the caller-supplied mark (callers checked below)' if ok else
                            '%s slices the data stack from %s' % (short(fn), expr_str(a)[:50]), fn, ev['at'])
                elif fn in SLICERS:
                    rep.add('C11.R1', key, True, 'iteration over the slice above', fn, ev['at'], nontrivial=False)
                elif c.endswith('::index') and _slice_from_floor(f, ev):
                    rep.add('C11.R1', key, True, 'slice data_stack[ctx.ds_len..]', fn, ev['at'])
                elif _derived_from_floor_slice(f, ev):
                    rep.add('C11.R1', key, True, 'walks the slice data_stack[ctx.ds_len..]', fn, ev['at'], nontrivial=False)
                elif any(floor_guard(e, side, True) for (_, e, side) in guards_of(f, ev['bb'])):
                    rep.add('C11.R1', key, True, 'access dominated by a comparison of the visible depth with the reach the function was asked for', fn, ev['at'])
                elif _guarded_in_every_caller(fx, fn, lambda g, bb: any(floor_guard(e, side) for (_, e, side) in guards_of(g, bb))):
                    rep.add('C11.R1', key, True, 'a private helper of the guarded primitives: every call of it stands behind a comparison with ctx.ds_len', fn, ev['at'])
                else:
                    rep.add('C11.R1', key, False,
                            '%s reads or changes the whole data stack (%s) without a floor: inside a meta block it sees the enclosing program\'s values'
                            % (short(fn), short(c) or ev['how']), fn, ev['at'])
            else:
                n_heap += 1
                key = 'C11.R2:%s:%s' % (fn, short(c).split('::')[-1] if c else ev['how'])
                if c == MARK_ONLY:
                    rep.add('C11.R2', key, True, 'length read', fn, ev['at'], nontrivial=False)
                    continue
                gated = False
                for (b2, e, side) in guards_of(f, ev['bb']):
                    s = expr_str(e, -10)
                    if ('ContextMode' in s or 'mode' in s) and not side:
                        gated = True
                if not gated:
                    gated = _guarded_in_every_caller(fx, fn, lambda g, bb: any((('ContextMode' in expr_str(e, -10) or 'mode' in expr_str(e, -10)) and not side)
                                                                               for (_, e, side) in guards_of(g, bb)))
                rep.add('C11.R2', key, gated, 'behind the false edge of `mode == MetaEval`' if gated else
                        '%s accesses the variable heap (%s) without the meta-mode test: a meta block can read or change variables' % (short(fn), short(c) or ev['how']),
                        fn, ev['at'])
    rep.floor('C11.R1 data_stack access events in words', n_ds, 24)
    rep.floor('C11.R2 heap access events in words', n_heap, 6)
    # callers of the slicers pass a mark made in this context
    Vs = inline.View(fx)
    for sl, argi in SLICERS.items():
        for caller in sorted(fx.callers().get(sl, ())):
            f = Vs(caller)        # a private helper that pops the mark (`builder_stack_start`) is looked through
            for bb, t in f.calls():
                if callee_of(t) != sl:
                    continue
                e = f.expr_of_operand(t['args'][argi - 1])
                s = expr_str(e, -20)
                ok = 'pop_special' in s or 'ds_len' in s or caller in COLLECT_OK
                rep.add('C11.R1', 'C11.R1:slice-start:%s->%s' % (caller, short(sl)), ok,
                        ('mark from pop_special (VecStackStart)' if 'pop_special' in s else 'ctx.ds_len' if 'ds_len' in s else COLLECT_OK.get(caller, '')) if ok else
                        '%s passes %s as the start of the stack slice: not a mark made inside the current context' % (short(caller), s[:60]), caller, t.get('at'))
    # collect: n <= data_depth() test dominates
    cf = fx.fns.get('state::core_word_collect')
    if cf is not None:
        okc = False
        for bb in cf.reachable_blocks():
            br = bool_branch(cf, bb)
            if br:
                c = cmp_of(br[0])
                if c and c[0] == 'Gt' and 'data_depth' in expr_str(c[2], -10):
                    okc = True
                if c and c[0] == 'Lt' and 'data_depth' in expr_str(c[1], -10) and 'data_depth' not in expr_str(c[2], -10):
                    okc = True        # the same test spelled depth < n
        # the same bound spelled data_depth().checked_sub(n): None (-> StackUnderflow) exactly when n > depth
        for bb, t in cf.calls():
            if (callee_of(t) or '').endswith('<impl usize>::checked_sub') and 'data_depth' in expr_str(cf.expr_of_operand(t['args'][0]), -10):
                okc = True
        rep.add('C11.R1', 'C11.R1:collect:count-checked-against-depth', okc, 'n > data_depth() -> StackUnderflow before slicing' if okc else
                'collect does not bound its count by data_depth()', cf.name, cf.j['span'])
    # the floor itself: a meta block starts with an empty stack of its own.  The floor a context opens with may be taken over
    # from the enclosing context only where the new context cannot be a meta block
    co = fx.need('state::State::context_open')
    n_floor = 0
    inherit_bad = []
    for bb in co.reachable_blocks():
        # the current depth is read somewhere
        t = co.blocks[bb]['term']
        if t['k'] == 'call' and (callee_of(t) or '').endswith('::len') and 'data_stack' in expr_str(co.expr_of_operand(t['args'][0]), -6):
            n_floor += 1
        for st in co.blocks[bb]['stmts']:
            # a read of the enclosing context's floor: wherever its value ends up (a field assignment, a local that is moved into
            # the Context literal), the block it sits in is the branch that decided to inherit
            if st['k'] != 'assign' or st['rv']['k'] != 'use':
                continue
            pl = op_place(st['rv']['o'])
            names = [x.get('f') for x in (pl or {}).get('p', []) if isinstance(x, dict)]
            if not (pl and 'ctx' in names and names[-1:] == ['ds_len']):
                continue
            n_floor += 1
            excluded = False
            for (_, e, side) in guards_of(co, bb):
                if isinstance(e, tuple) and e[0] == 'call' and 'cmp::PartialEq' in e[1] and 'ContextMode::MetaEval' in repr(e) \
                        and "('arg', 2)" in repr(e):
                    if (side if e[1].endswith('::ne') else not side):
                        excluded = True
            if not excluded:
                inherit_bad.append(('(*arg1).ctx.ds_len', st.get('at')))
    rep.floor('C11.R1 assignments of the stack floor in context_open', n_floor, 2)
    rep.add('C11.R1', 'C11.R1:context_open:meta-floor-is-current-depth', not inherit_bad,
            'a meta context opens with the current depth as its floor' if not inherit_bad else
            'context_open takes the floor over from the enclosing context (%s) also when a meta block opens inside a meta block: '
            '`#( 7 #( depth #) + #)` gives 8, `#( 1 #( drop 5 #) #)` succeeds although `#( drop 5 #)` alone underflows' % inherit_bad[0][0],
            co.name, inherit_bad[0][1] if inherit_bad else co.j['span'])
    # pop_special floored by ss_ptr
    ps = fx.need('state::State::pop_special')
    okp = any('ss_ptr' in expr_str(br[0], -10) for bb in ps.reachable_blocks() for br in [bool_branch(ps, bb)] if br)
    rep.add('C11.R1', 'C11.R1:pop_special:floored', okp, 'builder marks are popped only above ctx.ss_ptr' if okp else 'pop_special has no ss_ptr floor', ps.name, ps.j['span'])
    # cell_ref_for_mode callers pass the current mode
    for caller in sorted(fx.callers().get('state::State::cell_ref_for_mode', ())):
        if caller not in reach:
            continue
        f = fx.fns[caller]
        for bb, t in f.calls():
            if callee_of(t) == 'state::State::cell_ref_for_mode':
                s = expr_str(f.expr_of_operand(t['args'][2]), -10)
                ok = 'ctx.mode' in s
                rep.add('C11.R2', 'C11.R2:mode-argument:%s' % caller, ok, 'passes the current mode' if ok else '%s passes %s as the mode' % (short(caller), s[:40]),
                        caller, t.get('at'))

    # ---------- R3
    fx.need('state::State::context_close')
    V = inline.View(fx)
    cc = V('state::State::context_close')      # private helpers of context_close are looked through
    tracked = awrite.state_tracked(fx)
    purge = [w for w in awrite.field_writes(fx, cc, tracked) if (w['field'][0] in ('code', 'debug_map', 'sources') and w['how'] == 'call:shrink:truncate') or
             (w['field'][0] == 'dict' and w['how'].startswith('call:shrink'))]
    rep.floor('C11.R3 purge statements in context_close', len(purge), 4)
    for need_ in ('code', 'debug_map', 'dict', 'sources'):
        if not any(w['field'][0] == need_ for w in purge):
            rep.add('C11.R3', 'C11.R3:context_close:purges-%s' % need_, False,
                    'context_close does not cut State.%s back when a meta block closes: %s' % (need_, {
                        'sources': 'the record that a file was read outlives the words read from it, and a later `require` of that file is skipped',
                    }.get(need_, 'what the block built survives it')), cc.name, cc.j['span'])
    for w in purge:
        gs = guards_of(cc, w['bb'])
        meta = False
        extra = []
        for (b2, e, side) in gs:
            s = expr_str(e, -10)
            if 'ContextMode' in s or '.mode' in s:
                if 'ctx.mode' in s:
                    meta = True
                else:
                    extra.append(s[:50])
            elif s.startswith('Lt(') and 'dict' in s:
                pass
            elif 'is_err' in s or 'is_ok' in s:
                pass
            else:
                extra.append(s[:50])
        # the Constant test is a discriminant switch, not a bool branch: fine
        ok = meta and not extra
        arg_ok = True
        if w['field'][0] in ('code', 'debug_map', 'sources'):
            a = expr_str(cc.expr_of_operand(w['term']['args'][1]), -10)
            arg_ok = ('ctx.so_len' if w['field'][0] == 'sources' else 'ctx.cs_len') in a
        rep.add('C11.R3', 'C11.R3:context_close:purges-%s' % w['field'][0], ok and arg_ok,
                'guarded by the MetaEval test only%s' % ('; cut back to the mark of the block' if w['field'][0] != 'dict' else '') if ok and arg_ok else
                'the purge of %s is %s: something a meta block built can survive its close' %
                (w['field'][0], 'skipped under a further condition %s' % extra if extra else 'not under the MetaEval test' if not meta else 'not cut to the mark of the block'),
                cc.name, w['at'])
    # the decision how the block's results are emitted looks at the flows of the ENCLOSING context only (flow_stack[prev.fs_len..]):
    # seen through the whole stack, a definition opened further out would be mistaken for the enclosing construct
    evs = [ev for ev in awrite.field_events(fx, cc, {'state::State': {'flow_stack'}}) if not ev['mut']]
    whole = [ev for ev in evs if (ev['callee'] or '').endswith('::deref') or ((ev['callee'] or '').endswith('::index') and
             'fs_len' not in ' '.join(expr_str(cc.expr_of_operand(a), -20) for a in ev['term']['args'][1:]))]
    floored = [ev for ev in evs if (ev['callee'] or '').endswith('::index') and 'RangeFrom' in
               ' '.join(expr_str(cc.expr_of_operand(a), -20) for a in ev['term']['args'][1:])]
    okf = bool(floored) and not whole
    rep.add('C11.R3', 'C11.R3:context_close:pending-flows-read-above-the-enclosing-floor', okf,
            'flow_stack is read only as flow_stack[<ctx>.fs_len..]' if okf else
            'context_close looks at the whole flow stack (%s): inside a word definition a nested block is emitted as if the definition were '
            'its enclosing construct' % ', '.join(sorted({short(ev['callee']) for ev in whole}) or ['no floored read found']),
            cc.name, (whole or floored or [{'at': cc.j['span']}])[0]['at'])
    # the block's results are what lies above the block's OWN floor: the loop that turns them into literals compares the depth
    # with the floor of the context that is closing, not with the enclosing one's (under eval that one is 0: the loop would
    # reach values left by earlier sources)
    import re as _re
    n_fl = 0
    wrong_floor = []
    own_height = [False]
    for bb in cc.reachable_blocks():
        br = bool_branch(cc, bb)
        c = cmp_of(br[0]) if br else None
        if not c:
            continue
        from ..core import norm_refs as _nr
        sa, sb = expr_str(_nr(c[1]), -12), expr_str(_nr(c[2]), -12)      # `*&mut *self` chains of a spliced helper read as `*self`
        if not (('data_stack' in sa and 'ds_len' in sb) or ('data_stack' in sb and 'ds_len' in sa)):
            continue
        n_fl += 1
        fl = sb if 'ds_len' in sb else sa
        # the block's own base: its floor, or (a nested block inherits the outer floor) the height at which it was opened
        own = _re.fullmatch(r'\(\*arg\d+\)\.ctx\.ds_len', fl) or \
            (_re.search(r'\(\*arg\d+\)\.ctx\.ds_open', fl) and not _re.search(r'(prev|nested)', fl))
        if not own:
            wrong_floor.append(fl[:50])
        elif 'ds_open' in fl:
            own_height[0] = True
    rep.add('C11.R1', 'C11.R1:context_close:results-above-own-floor', bool(n_fl) and not wrong_floor,
            'the emission loop runs while depth > ctx.ds_len of the closing context' if n_fl and not wrong_floor else
            'context_close compares the depth with %s, not with the floor of the block that is closing: under eval the enclosing floor is 0 and '
            'the loop pops values earlier sources left (`3`, then `#( 1 2 + #) +` fails with StackUnderflow)' % (wrong_floor or ['nothing']),
            cc.name, cc.j['span'])
    # a nested block inherits the outer floor (known finding above), so 'above the floor' is the OUTER block's whole stack: the
    # emission has to stop at the height at which this block was opened
    rep.add('C11.R1', 'C11.R1:context_close:nested-block-emits-its-own-results', own_height[0],
            'the emission loop stops at max(floor, height at open)' if own_height[0] else
            'context_close turns everything above ctx.ds_len into literals: for a block nested in a meta block that is the enclosing block\'s '
            'stack as well (`#( 7 [ #( 1 #) ] #)` gives [ 1 7 ])', cc.name, cc.j['span'])
    # ... and the decision is 'is anything open?', not 'is a definition open?': with a vector, if, loop or case open the enclosing
    # block is assembling code as well (`#( [ #( 1 #) 2 ] #)` gave [ 2 ] and a stray 1).  The only construct that wants the value on
    # the stack is the enum builder
    singled = []
    n_sw = 0
    for bb in cc.reachable_blocks():
        t = cc.blocks[bb]['term']
        if t['k'] != 'switch':
            continue
        e = cc.expr_of_operand(t['discr'])
        if not (isinstance(e, tuple) and e[0] == 'discr' and e[2] == 'state::Flow' and 'flow_stack' in expr_str(e[1], -20)):
            continue
        n_sw += 1
        vs = None
        for st in cc.blocks[bb]['stmts']:
            if st['k'] == 'assign' and st['rv']['k'] == 'discr':
                vs = dict(st['rv']['variants'])
        singled += [(vs or {}).get(v, str(v)) for v, _ in t['targets'] if (vs or {}).get(v, str(v)) != 'Enum']
    rep.add('C11.R3', 'C11.R3:context_close:results-compiled-wherever-a-structure-is-open', not singled,
            'the emission test asks whether a flow is pending (%d switch(es) on the kind of flow, none singling out a construct but the enum builder)' % n_sw
            if not singled else
            'context_close decides by the kind of the innermost open construct (%s) whether a nested block\'s result is compiled in place: with '
            'any other structure open the value is left on the build-time stack' % ', '.join(sorted(set(singled))), cc.name, cc.j['span'])
    # the same floor for everybody who SEARCHES the pending flows (the innermost definition for `local`, a loop for `break`): an
    # iteration over flow_stack starts at ctx.fs_len, otherwise a block inside a definition finds that definition's locals
    n_it = 0
    for fn in sorted(fx.fns):
        f = V(fn) if not V.transparent(fn) else fx.fns[fn]
        for ev in awrite.field_events(fx, f, {'state::State': {'flow_stack'}}):
            c = ev['callee'] or ''
            if not (c.endswith('::iter') or c.endswith('::iter_mut') or c.endswith('::into_iter')):
                continue
            er = f.expr_of_operand(ev['term']['args'][0])
            # an iteration over a FIELD of one pending flow (the locals of the innermost definition) is not a search over the flows
            inner = False
            for x in expr_walk(er):
                if isinstance(x, tuple) and x[0] == 'proj' and any(isinstance(n_, str) and n_ not in ('*', 'flow_stack') and not n_.isdigit()
                                                                    and not n_.startswith('as ') for n_ in x[2]) and \
                        ('flow_stack' in expr_str(x[1], -30) or any(isinstance(y, tuple) and y[0] == 'call' and y[1] in awrite.LOCAL_DERIVE
                                                                     for y in expr_walk(x[1]))):
                    inner = True
            if inner:
                continue
            n_it += 1
            recv = expr_str(er, -30)
            okf = 'RangeFrom' in recv and 'fs_len' in recv
            rep.add('C11.R3', 'C11.R3:%s:flow-search-starts-at-the-floor' % fn, okf,
                    'iterates flow_stack[ctx.fs_len..]' if okf else
                    '%s searches the whole flow stack (%s): inside a meta block it finds constructs of the enclosing contexts - a block in a '
                    'definition resolves a name as that definition\'s local' % (short(fn), recv[:60]), fn, ev['at'])
    rep.floor('C11.R3 searches over the pending flows', n_it, 2)
    # a constant redefined inside one block is updated in place: two entries of one name above the mark would be permuted by the
    # swap_remove purge below and the older value could win the next lookup
    cw = fx.fns.get('state::core_word_const')
    if cw is None:
        raise MissingAnchor('state::core_word_const')
    cwt = inline.thread_fn(cw)
    upd = [w for w in awrite.field_writes(fx, cwt, tracked) if w['field'][0] == 'dict' and w.get('elem') and w['how'].startswith('assign')]
    ins = [bb for bb, t in cwt.calls() if callee_of(t) == 'state::State::dict_insert']
    rep.add('C11.R3', 'C11.R3:const:redefinition-updates-in-place', bool(upd) and bool(ins),
            'const overwrites the entry it owns and inserts otherwise' if upd and ins else
            'const never updates an existing constant in place: a block that sets one constant twice leaves two entries of one name, and the '
            'purge at `#)` (swap_remove) can put the older one last', cw.name, cw.j['span'])
    # the dictionary loop keeps only constants
    keeps_const = False
    # the test may stand in the loop itself or in the closure of a `retain` (of context_close or of a helper spliced into it)
    owners = {'state::State::context_close'} | set(V.inlined_into('state::State::context_close') or [])
    bodies = [cc] + [g for n_, g in sorted(fx.fns.items()) if '::{closure' in n_ and n_.split('::{closure')[0] in owners]
    evs = (fx.adts.get('state::Entry') or {}).get('variants', [])
    for g in bodies:
        for bb in g.reachable_blocks():
            t = g.blocks[bb]['term']
            if t['k'] == 'switch':
                e = g.expr_of_operand(t['discr'])
                if isinstance(e, tuple) and e[0] == 'discr' and e[2] == 'state::Entry':
                    names = [evs[v]['name'] if isinstance(v, int) and v < len(evs) else str(v) for v, _ in t['targets']]
                    keeps_const = keeps_const or names == ['Constant']
    rep.add('C11.R3', 'C11.R3:context_close:keeps-only-constants', keeps_const, 'entries other than Entry::Constant are removed' if keeps_const else
            'the dictionary purge does not test for Entry::Constant alone', cc.name, cc.j['span'])

    # lookup takes the latest entry of a name: whatever removes entries must keep the survivors in their order
    # (`#( : f 1 ; 1 const x #( 2 const x #) #) x`: swap_remove of f put the inner x before the outer one and x read 1)
    n_perm = 0
    for fn in sorted(fx.fns):
        for w in awrite.field_writes(fx, fx.fns[fn], tracked):
            if w['field'][0] != 'dict' or not w['how'].startswith('call:'):
                continue
            kind = w['how'].split(':')
            if kind[1] == 'permute' or (kind[1] == 'shrink' and kind[2] in ('swap_remove', 'dedup')):
                n_perm += 1
                rep.add('C11.R3', 'C11.R3:dictionary-order-kept:%s:%s' % (fn, kind[2]), False,
                        '%s changes the order of dictionary entries (%s): the dictionary is searched from its end, so which of two entries of one '
                        'name is visible changes' % (short(fn), kind[2]), fn, w['at'])
    rep.add('C11.R3', 'C11.R3:dictionary-order-kept', n_perm == 0, 'no function permutes State.dict (no swap_remove / swap / sort / reverse / rotate on it)'
            if n_perm == 0 else '%d order-changing operations on the dictionary' % n_perm, 'state::State::context_close', cc.j['span'], nontrivial=False)
    # code below the block's mark outlives the block: an instruction that patches itself while it runs (the Resolve stub of a `late`
    # word) may not do so for good in a meta context - what it was bound to goes away at `#)`
    check_runtime_code_patches(rep, fx, V, tracked)

    # ---------- R4
    RUN = 'state::State::run'
    allowed = {'state::State::context_close': 'mode', 'state::State::build1': 'mode', 'state::State::run_immediate': None,
               'repl::run_line::{closure#0}': None}
    from .. import stepfx
    for caller in sorted(stepfx.callers_seen_through(fx, V, RUN)):
        if caller not in fx.fns:
            continue
        f = V(caller)       # unnamed helpers between a drive function and run() are looked through
        if caller.startswith('repl::') or caller.startswith('c_api::'):
            continue
        ok = caller in allowed
        why = '%s calls State::run: building a source can now execute code' % short(caller)
        if ok and allowed[caller] == 'mode':
            for bb, t in f.calls():
                if callee_of(t) == RUN:
                    gs = guards_of(f, bb)
                    if not any(('ContextMode' in expr_str(e, -10) or '.mode' in expr_str(e, -10)) and side for (_, e, side) in gs):
                        ok = False
                        why = '%s calls run() outside a mode test: Compile mode would execute code' % short(caller)
        rep.add('C11.R4', 'C11.R4:caller-of-run:%s' % caller, ok, 'drive function / under a mode test' if ok else why, caller, f.j['span'])
    from .. import inline as _inl, stepfx as _sfx
    for caller in sorted(_sfx.callers_seen_through(fx, _inl.View(fx), 'state::State::fetch_and_run')):
        base = caller.split('::{closure')[0]
        ok = base in ('state::State::run', 'state::State::next', 'state::State::fetch_and_run')
        rep.add('C11.R4', 'C11.R4:caller-of-fetch_and_run:%s' % caller, ok, 'step driver' if ok else '%s executes instructions directly' % short(caller), caller,
                fx.fns[caller].j['span'] if caller in fx.fns else None, nontrivial=False)


def runtime_patch_sites(fx, V, tracked):
    """(view of the step function, [(bb, at, how)] sites that overwrite an instruction, blocks that put a saved instruction back)"""
    STEP = 'state::State::fetch_and_run'
    f = V(STEP)
    codew = set()        # functions that overwrite an element of State.code
    for fn, g in fx.fns.items():
        for w in awrite.field_writes(fx, g, tracked):
            if w['field'][0] == 'code' and (w.get('elem') or w['how'].startswith('call:overwrite')):
                codew.add(fn)
    sites = []
    for w in awrite.field_writes(fx, f, tracked):
        if w['field'][0] == 'code' and (w.get('elem') or w['how'].startswith('call:overwrite')):
            sites.append((w['bb'], w['at'], 'direct'))
    for bb, t in f.calls():
        c = callee_of(t)
        if c in codew and c != STEP:
            sites.append((bb, t.get('at'), short(c)))
    restores = set()      # blocks that write back an instruction read from code before the patch
    for w in awrite.field_writes(fx, f, tracked):
        if w['field'][0] == 'code' and w.get('elem') and w['how'].startswith('assign'):
            e = f.expr_of_rvalue(w['stmt']['rv'], 0, frozenset()) if w.get('stmt') else None
            if e is not None and any(isinstance(x, tuple) and x[0] == 'call' and x[1] == 'core::mem::replace' for x in expr_walk(e)):
                restores.add(w['bb'])
    return f, sites, restores


def check_runtime_code_patches(rep, fx, V, tracked):
    STEP = 'state::State::fetch_and_run'
    f, sites, restores = runtime_patch_sites(fx, V, tracked)
    rep.floor('C11.R3 run-time writes of an instruction (Resolve stub)', len(sites), 1)
    rets = set(f.return_blocks())
    bad = []
    n = 0
    for bb, at, how in sites:
        if bb in restores:
            continue
        n += 1
        gs = guards_of(f, bb)
        meta_sides = [(side if e[1].endswith('::eq') else not side) for (_, e, side) in gs
                      if isinstance(e, tuple) and e[0] == 'call' and 'cmp::PartialEq' in e[1]
                      and 'ctx.mode' in expr_str(e, -10) and 'ContextMode::MetaEval' in repr(e)]
        if meta_sides and not meta_sides[-1]:
            continue            # runs only when the mode is not MetaEval
        if any(isinstance(e, tuple) and e[0] == 'call' and e[1].endswith('::is_empty') and '.input' in expr_str(e, -14) and side for (_, e, side) in gs):
            continue            # runs only when no source is being read - and a meta block is evaluated while its source is
        # anywhere else - the MetaEval branch, or a branch that more than one test leads to (`mode == MetaEval || a source is
        # still being read`) - the stub has to be put back on every way out
        from ..pathq import exists_path_avoiding
        if restores and exists_path_avoiding(f, bb, lambda b: b in rets, restores) is None:
            continue
        bad.append((how, at))
    # ... and what the stub binds to is never a build-time (immediate) word: those work on the source being read and are run by
    # the builder only.  Every self-patching site is reached only after the entry's `immediate` flag was found false
    unguarded = []
    from ..pathq import blocks_after as _ba
    imm_true = []          # where the step function has found `immediate == true` on the entry it is about to bind
    for b2 in f.reachable_blocks():
        br = bool_branch(f, b2)
        if br and 'immediate' in expr_str(br[0], -14):
            imm_true.append(br[1])
    after_true = set()
    xfn = fx.adts.get('cell::Xfn') or {}
    native_ix = [i for i, v in enumerate(xfn.get('variants', [])) if v['name'] == 'Native']
    for tb in imm_true:
        # the refusal may be narrowed to the built-in words (`immediate: true, xf: Xfn::Native(_)`): a user-defined immediate word
        # is compiled code like any other.  Then what must not bind is what lies behind `immediate` AND `Native`
        b, hops = tb, 0
        while f.blocks[b]['term']['k'] == 'goto' and hops < 4:
            b, hops = f.blocks[b]['term']['target'], hops + 1
        t = f.blocks[b]['term']
        if t['k'] == 'switch' and native_ix:
            e = f.expr_of_operand(t['discr'])
            if isinstance(e, tuple) and e[0] == 'discr' and e[2] == 'cell::Xfn':
                listed = dict((v, tg) for v, tg in t['targets'])
                nt = listed.get(native_ix[0], t['otherwise'])
                after_true |= _ba(f, nt) | {nt}
                continue
        after_true |= _ba(f, tb) | {tb}
    for bb, at, how in sites:
        if not imm_true or bb in after_true:
            unguarded.append(how)
    rep.add('C11.R4', 'C11.R4:late-binding-refuses-build-time-words', not unguarded,
            'the Resolve stub tests the immediate flag of the entry and fails on a built-in build-time word before binding' if not unguarded else
            'the step function binds a late word without looking at the immediate flag of the entry (%s): `late = : t = ; enum E 1 t A endenum` '
            'runs the enum builder\'s `=` as an instruction of the program - unbounded native recursion' % ', '.join(sorted(set(unguarded))),
            STEP, f.j['span'])
    rep.add('C11.R3', 'C11.R3:run-time-code-patch:not-for-good-in-a-meta-block', not bad,
            '%d self-patching sites in the step function: each runs outside MetaEval, or puts the stub back before returning' % n if not bad else
            'the step function overwrites an instruction (%s) also while meta-evaluating and does not put it back: `late foo : bar foo ; '
            '#( : foo 2 ; bar #) drop : foo 1 ; bar` calls code the block has purged' % ', '.join(sorted({h for h, _ in bad})),
            STEP, bad[0][1] if bad else f.j['span'])


def _slice_from_floor(f, ev):
    a = f.expr_of_operand(ev['term']['args'][1]) if len(ev['term']['args']) > 1 else None
    return a is not None and 'ds_len' in expr_str(a, -10) and 'RangeFrom' in expr_str(a, -10)


def _derived_from_floor_slice(f, ev):
    t = ev.get('term')
    if not t:
        return False
    s = ' '.join(expr_str(f.expr_of_operand(a), -30) for a in t['args'])
    return 'RangeFrom' in s and 'ds_len' in s

# as-built addendum
EXPLANATION += " As built (DESIGN 9.2): As built, R1 also: the emission loop of a closing block compares with that block's own floor and with the depth at its opening (a nested block emits only its own results); the floor a meta context opens with is the current depth (known finding: nested blocks inherit). R3 also: the purge keeps dictionary order, cuts the source registry with the code (sparing live inputs, see C17), searches over pending flows start at the floor, results are compiled in place wherever a structure other than the enum builder is open, the `late` stub does not patch for good in a meta context. R4 also: late binding refuses a build-time word. R3/R4 as built: a permanent run-time patch is fine behind `input.is_empty()` too (no meta evaluation without a source being read); the refusal of build-time words may be narrowed to the native ones."
