"""C02 — reverse stepping exactly undoes forward stepping.

R1 who may write machine state at run time; R2 every machine-state write is
paired with a log entry whose inverse arm undoes that kind of write on that
field (payload carrying the removed / overwritten value); R3 each inverse arm
undoes with direct writes; R4 one SetIp per instruction, logged last."""
from ..core import (callee_of, expr_walk, expr_str, return_defs, short, op_place, runtime_targets,
                    TRY_BRANCH, FROM_RESIDUAL, MissingAnchor)
from .. import awrite, logfx
from ..pathq import bool_branch, blocks_reaching, blocks_after, exists_path_avoiding, error_blocks, edge_guards

EXPLANATION = (
    "Pairing rule over the MIR of every function the VM can reach at run time (call graph from fetch_and_run plus the "
    "word registry decoded from defword/def_immediate/code_emit_call_native sites). Machine state = State.ctx.ip, "
    "data_stack, return_stack (incl. Frame.locals), loops, special, heap. R1/R2: every write to one of these fields in a "
    "run-time reachable function is accompanied, on the same paths and under is_recording(), by add_reverse_step(V) where "
    "the V arm of reverse_changes performs the inverse kind of write on the same field (grow<->shrink, permute<->same "
    "permute, overwrite<->overwrite) and, for shrink/overwrite, V carries the removed/overwritten value (payload "
    "provenance checked: result of the pop, partner of the mem::swap, or a read of the same place that precedes the "
    "write). R3: every ReverseStep arm writes its field directly (not through recording primitives; OverData is the one "
    "reviewed exception) and no variant is logged without a write. R4: every Ok path through fetch_and_run passes exactly "
    "one set_ip/next_ip (or the Resolve re-dispatch) and touches no machine state after it. Decides the mechanism "
    "'every mutation logs its inverse'; does not decide value-level equality of restored states or replay determinism.")
RULE_TEXT = ("instances = (function, field, write kind) triples for all machine-state writes in run-time reachable "
             "functions, one per ReverseStep variant arm, one per add_reverse_step call site, and one per Opcode arm of "
             "fetch_and_run; non-trivial = needed dominance / provenance / path search")
ASSUMPTIONS = [
    "rustc MIR and Instance resolution are correct for the analysed build",
    "A-LATE: `late` cannot bind an immediate word at run time - no longer an assumption: rule C11.R4 late-binding-refuses-build-time-words decides it",
    "std Vec/slice/mem::swap behave as documented",
]

MACHINE = ('data_stack', 'return_stack', 'loops', 'special', 'heap')
ADD = 'state::State::add_reverse_step'
REC = 'state::State::is_recording'

INVERSE_KIND = {'grow': 'shrink', 'shrink': 'grow', 'permute': 'permute', 'overwrite': 'overwrite'}


def kind_of(w):
    """coarse mutation kind of a write event"""
    how = w['how']
    if how.startswith('call:grow'):
        # growth of an element's own container (Frame.locals push_back_mut) is still a grow of that sub-container
        return 'grow'
    if how.startswith('call:shrink'):
        return 'shrink'
    if how.startswith('call:permute'):
        return 'permute'
    return 'overwrite'


def is_machine(w):
    f = w['field']
    if f[0] in MACHINE:
        return True
    return f[0] == 'ctx' and len(f) > 1 and f[1] == 'ip'


def field_id(w):
    f = w['field']
    return 'ctx.ip' if f[0] == 'ctx' else f[0]


def recording_regions(f):
    """blocks control-dependent on the true edge of a branch on is_recording()"""
    out = {}
    for bb in f.reachable_blocks():
        br = bool_branch(f, bb)
        if br is None:
            continue
        e, tbb, fbb = br
        if isinstance(e, tuple) and e[0] == 'call' and (e[1] == REC or e[1] == 'core::option::Option::<T>::is_some'
                                                         and 'reverse_log' in expr_str(e)):
            dom = f.dominators()
            if len(f.pred(tbb)) == 1:
                for b, d in dom.items():
                    if d is not None and tbb in d:
                        out[b] = bb
                        _REC_TRUE[(f.name, bb)] = tbb
    return out


_REC_TRUE = {}


_FX = [None, None]     # (facts, effects)


def log_sites(f):
    """(bb, variant, field operand exprs, term, value expr, pure) for each call that appends to the reverse log:
    add_reverse_step or any helper that ends in the push (logfx)"""
    return logfx.sites(_FX[0], f, _FX[1])


def arms_of_reverse(fx):
    rc = fx.need('state::State::reverse_changes')
    arms = {}
    for bb in sorted(rc.reachable_blocks()):
        t = rc.blocks[bb]['term']
        if t['k'] != 'switch':
            continue
        e = rc.expr_of_operand(t['discr'])
        if isinstance(e, tuple) and e[0] == 'discr' and e[2] == 'state::ReverseStep':
            # find variant table from the defining statement
            variants = None
            for b2 in rc.reachable_blocks():
                for st in rc.blocks[b2]['stmts']:
                    if st['k'] == 'assign' and st['rv']['k'] == 'discr' and st['rv'].get('adt') == 'state::ReverseStep':
                        variants = dict((v, n) for v, n in st['rv']['variants'])
            dom = rc.dominators()
            for v, tgt in t['targets']:
                name = variants.get(v, str(v)) if variants else str(v)
                region = {b for b, d in dom.items() if d is not None and tgt in d}
                arms[name] = (tgt, region)
            return rc, arms, variants
    raise MissingAnchor('switch on ReverseStep not found in reverse_changes')


def payload_ok(f, w, var, fields, W_fn, log_bb, log_term=None):
    """does the logged variant carry the removed / overwritten value of write w?"""
    if not fields:
        return False, 'variant %s carries no payload' % var
    kind = kind_of(w)
    tracked = None
    for fe in fields:
        # payload derives from the result of the shrinking / replacing call itself
        if w.get('callee') and (kind == 'shrink' or w['how'].split(':')[-1] in ('replace', 'take')):
            for x in expr_walk(fe):
                if isinstance(x, tuple) and x[0] == 'call' and x[1] == w['callee'] and x[3] == f.obb(w['bb']):
                    return True, 'payload is the value returned by %s' % short(w['callee'])
        if kind != 'shrink':
            # overwrite through mem::swap: payload is the swap partner
            if w['how'].startswith('call:overwrite:swap-with'):
                t = w['term']
                other = [a for i, a in enumerate(t['args']) if i != w['argi']]
                for a in other:
                    ea = f.expr_of_operand(a)
                    # partner is `&mut local`; payload must be that same local
                    pl = _local_of(ea)
                    pf = _local_of(fe)
                    if pl is not None and pf is not None and pl == pf:
                        return True, 'payload is the mem::swap partner holding the old value'
                    # moved through a temp: compare by textual provenance
                    if pl is not None and ('arg%d' % pl) in expr_str(fe) or (pl is not None and ('_%d' % pl) in expr_str(fe)):
                        return True, 'payload is the mem::swap partner holding the old value'
            # read of the same place preceding the write
            import xehlint.awrite as aw
            tr = {'state::State': None}
            fe_read = fe
            while isinstance(fe_read, tuple) and fe_read[0] == 'call' and fe_read[1].endswith('::clone') and fe_read[2]:
                fe_read = fe_read[2][0]
            r = aw.root_path(f, fe_read, _TRACKED[0])
            if r is not None:
                adt, flds, via, sh = r
                same = (flds[0] == w['field'][0]) and (w['field'][0] != 'ctx' or flds[:2] == w['field'][:2])
                if same:
                    # position: the read must precede the write
                    pos = _first_read_pos(f, fe, log_term)
                    if pos is None:
                        return True, 'payload reads %s (position not needed: copy of a field)' % '.'.join(flds)
                    rb, ri = pos
                    wb, wi = w['bb'], w['idx']
                    before = (rb == wb and ri < wi) or (rb != wb and wb in blocks_after(f, rb) and rb not in blocks_after(f, wb))
                    if before:
                        return True, 'payload is a read of %s taken before the write' % '.'.join(flds)
                    return False, 'payload reads %s only after it was overwritten' % '.'.join(flds)
    return False, 'payload of %s is not derived from the removed/overwritten value' % var


_TRACKED = [None]


def _local_of(e):
    while isinstance(e, tuple):
        if e[0] in ('ref', 'cast'):
            e = e[2]
        elif e[0] == 'proj' and all(p == '*' for p in e[2]):
            e = e[1]
        else:
            break
    if isinstance(e, tuple) and e[0] in ('arg', 'undef', 'cycle'):
        return e[1]
    return None


def _first_read_pos(f, e, log_term=None):
    """(bb, idx) of the event that read the tracked place: the clone call, or
    the statement copying the field into the temporary that feeds the log"""
    for x in expr_walk(e):
        if isinstance(x, tuple) and x[0] == 'call' and 'clone' in x[1].lower():
            bb = x[3]
            return (bb, len(f.blocks[bb]['stmts']))
    if log_term is None:
        return None
    if len(log_term['args']) < 2 or callee_of(log_term) != ADD:
        # the entry is built inside a helper: the place is read while the helper runs, i.e. at the call
        for bb, t in f.calls():
            if t is log_term:
                return (bb, len(f.blocks[bb]['stmts']))
        return None
    # follow the raw operand chain: log arg -> aggregate -> field temp -> `tmp = copy place.with.fields`
    work = [log_term['args'][1]]
    seen = set()
    while work:
        o = work.pop()
        p = op_place(o)
        if p is None or p['l'] in seen:
            continue
        seen.add(p['l'])
        for (bb, i, kind, payload) in f.defs().get(p['l'], []):
            if kind != 'assign':
                continue
            rv = payload
            if rv['k'] == 'agg':
                work.extend(rv['fields'])
            elif rv['k'] == 'use':
                q = op_place(rv['o'])
                if q is not None and any(isinstance(x, dict) and 'f' in x for x in q['p']):
                    return (bb, i)
                work.append(rv['o'])
    return None


def run(rep, facts, tier):
    fx = facts['dev']
    rep.rule('C02.R1', 'who may write machine state at run time: only functions whose writes are logged (R2)')
    rep.rule('C02.R2', 'every machine-state write is paired, under is_recording(), with a log entry whose arm performs the inverse write on the same field, carrying the removed/overwritten value')
    rep.rule('C02.R3', 'every ReverseStep arm undoes with direct writes on one field; no variant is logged without a write; no dead variants')
    rep.rule('C02.R4', 'one SetIp per instruction, logged last: every Ok path of fetch_and_run passes exactly one ip write and touches no machine state after it')
    tracked = awrite.state_tracked(fx)
    _TRACKED[0] = tracked
    W = awrite.all_field_writes(fx, 'state', tracked)
    _FX[0], _FX[1] = fx, logfx.log_effects(fx, W, is_machine)
    rep.floor('C02 log helpers (functions ending in the push onto reverse_log)', len(_FX[1]), 1)
    rep.extra['log_helpers'] = sorted(_FX[1])

    # arms of reverse_changes
    rc, arms, variants = arms_of_reverse(fx)
    arm_writes = {}
    for name, (tgt, region) in arms.items():
        ws = [w for w in W.get(rc.name, []) if w['bb'] in region and is_machine(w)]
        arm_writes[name] = ws
    rep.floor('C02 ReverseStep arms', len(arms), 15)

    # run-time reachable functions
    far = fx.need('state::State::fetch_and_run')
    rt = runtime_targets(fx)
    extra = {'state::State::fetch_and_run': rt}
    reach = fx.reachable_from(['state::State::fetch_and_run'], extra_edges=extra)
    rep.extra['runtime_reachable_fns'] = len([r for r in reach if r in fx.fns])
    rep.floor('C02 run-time reachable functions', len([r for r in reach if r in fx.fns]), 250)
    rep.floor('C02 registry words', len(fx.registry()['words']), 230)

    logged_variants = set()
    n_writes = 0
    for fn in sorted(reach):
        f = fx.fns.get(fn)
        if f is None:
            continue
        ws = [w for w in W.get(fn, []) if is_machine(w)]
        logs = log_sites(f)
        rec = recording_regions(f)
        for (bb, var, fields, t, e, pure, built) in logs:
            logged_variants.add(var)
        for w in ws:
            n_writes += 1
            fid = field_id(w)
            kind = kind_of(w)
            key = 'C02.R2:%s:%s:%s' % (fn, fid, w['how'])
            # candidate logs: same paths (dominance either way), under recording
            cands = []
            cond_logs = []
            for (bb, var, fields, t, e, pure, built) in logs:
                if built is not None and not any(f.dominates(w['bb'], d) or f.dominates(d, w['bb']) or d == w['bb'] for d in built):
                    continue      # this alternative of a computed entry is built on another branch than the write
                if not pure:
                    # inside the helper the push depends on more than the recording state
                    if f.dominates(w['bb'], bb) or f.dominates(bb, w['bb']):
                        cond_logs.append(var)
                    continue
                if bb not in rec:
                    # the helper tests the recording state itself: the call stands for `if recording { log }`
                    if f.dominates(bb, w['bb']) or bb == w['bb'] or _log_after_join(f, w['bb'], bb):
                        cands.append((bb, var, fields, t))
                    elif f.dominates(w['bb'], bb):
                        cond_logs.append(var)
                    continue
                guard = rec[bb]
                # the recording test is on every path of the write: it dominates the write (log first) or
                # post-dominates it (write first; also covers a write in one of two branches with the log after the join)
                same_paths = f.dominates(guard, w['bb']) or guard == w['bb'] or _log_after_join(f, w['bb'], guard)
                if not same_paths and f.dominates(w['bb'], guard):
                    cond_logs.append(var)
                # the log must depend on recording ONLY: once the recording edge is taken, every path to the
                # return passes the log (a further condition such as `&& new != old` makes entries go missing)
                tb = _REC_TRUE.get((f.name, guard))
                pd = f.postdominators()
                uncond = tb is not None and tb in pd and bb in pd[tb]
                if same_paths and not uncond:
                    cond_logs.append(var)
                if same_paths and uncond:
                    cands.append((bb, var, fields, t))
            if not cands and cond_logs:
                rep.add('C02.R2', key, False,
                        '%s logs %s for its write to State.%s only under a further condition besides is_recording(): some mutations are not '
                        'recorded and cannot be undone' % (short(fn), '/'.join(cond_logs), '.'.join(w['field'])), fn, w['at'])
                continue
            if not cands:
                chain = fx.call_path(['state::State::fetch_and_run'], fn, extra_edges=extra)
                rep.add('C02.R2', key, False,
                        '%s writes State.%s (%s) at run time without logging an inverse under is_recording(); reachable via %s'
                        % (short(fn), '.'.join(w['field']), w['how'], ' -> '.join(short(c) for c in (chain or [])[-4:])),
                        fn, w['at'])
                continue
            # does some candidate invert this write?
            verdicts = []
            good = False
            for (bb, var, fields, t) in cands:
                aw_ = arm_writes.get(var)
                if aw_ is None:
                    verdicts.append('%s: no such arm' % var)
                    continue
                inv = [a for a in aw_ if field_id(a) == fid and kind_of(a) == INVERSE_KIND[kind]]
                if not inv:
                    verdicts.append('arm %s does not %s State.%s (it does: %s)' % (
                        var, INVERSE_KIND[kind], fid, ', '.join('%s %s' % (field_id(a), kind_of(a)) for a in aw_) or 'nothing direct'))
                    continue
                if kind == 'permute':
                    # same constant indices
                    if _perm_sig(f, w) != _perm_sig(rc, inv[0]):
                        verdicts.append('arm %s permutes different positions %s vs %s' % (var, _perm_sig(rc, inv[0]), _perm_sig(f, w)))
                        continue
                if kind in ('shrink', 'overwrite'):
                    ok, why = payload_ok(f, w, var, fields, W.get(fn, []), bb, t)
                    if not ok:
                        verdicts.append(why)
                        continue
                    verdicts.append(why)
                # element-level distinction: an overwrite of an element inside a sub-container that the arm
                # undoes by shrinking is not an inverse (InitLocal overwrite vs DropLocal)
                good = True
                verdicts.append('logged %s whose arm does %s on State.%s' % (var, INVERSE_KIND[kind], fid))
                break
            rep.add('C02.R2', key, good, '; '.join(verdicts[-2:]), fn, w['at'])
        # logs without a write in this function
        for (bb, var, fields, t, e, pure, built) in logs:
            if fn in ('state::State::rnext',):
                continue
            if fn in _FX[1] and fx.callers().get(fn):
                continue      # a log helper: its entries are judged at the functions that call it
            key = 'C02.R3:log-without-write:%s:%s' % (fn, var)
            aw_ = arm_writes.get(var, [])
            fields_arm = {field_id(a) for a in aw_}
            has = any(field_id(w) in fields_arm for w in ws) if aw_ else any(True for w in ws)
            if var == 'OverData':
                rep.add('C02.R3', key, True,
                        'reviewed exception: over_data logs the marker OverData and delegates the push to push_data (which logs '
                        'PopData); the OverData arm pops once more through pop_data whose PushData entry rnext consumes in the same '
                        'drain loop - traced by hand and reproduced (`1 2 over`, rnext -> `1 2`)', fn, t.get('at'))
                continue
            rep.add('C02.R3', key, has,
                    'log of %s accompanies a write of %s' % (var, sorted(fields_arm)) if has else
                    '%s logs %s but performs no write to %s itself: the log entry is unbalanced' % (short(fn), var, sorted(fields_arm) or 'machine state'),
                    fn, t.get('at'))
            # ... on every path: once the entry is on the log, the function does not leave through an error exit before the write
            # it stands for has happened (a push refused by the stack limit AFTER its PopData was logged leaves an entry that
            # undoes nothing)
            if has and aw_:
                wb = {w['bb'] for w in ws if field_id(w) in fields_arm}
                if not any(f.dominates(b_, bb) or b_ == bb for b_ in wb):
                    errs_ = error_blocks(f)
                    p_ = exists_path_avoiding(f, bb, lambda b_: b_ in errs_, wb) if errs_ else None
                    rep.add('C02.R3', 'C02.R3:log-then-write-on-every-path:%s:%s' % (fn, var), p_ is None,
                            'no error exit between the log entry and the write it stands for' if p_ is None else
                            '%s logs %s and can then fail (bb%s) before it writes %s: the entry stays on the log and undoes a change that '
                            'never happened' % (short(fn), var, '->bb'.join(map(str, p_[:6])), sorted(fields_arm)), fn, t.get('at'))
        if bool(ws) and fn != 'state::State::fetch_and_run':
            rep.add('C02.R1', 'C02.R1:%s' % fn, True, 'run-time writer of %s; its writes are checked by R2' %
                    sorted({field_id(w) for w in ws}), fn, f.j['span'], nontrivial=False)
    rep.floor('C02 machine-state writes at run time', n_writes, 16)
    # ... and outside run time.  What the drivers do to the machine BETWEEN steps is part of the history rnext has to walk back
    # through: halting a failed program (ip := end of code, loop records / frames / marks dropped) is a change like any other and
    # has to go through the logged primitives.  Exempt: the undo arms themselves; the rollback of a rejected source, provided the
    # log is cut back on the same paths (its entries go with the code they refer to); a freshly allocated heap cell.
    n_out = 0
    from .. import inline as _inl0
    V0 = _inl0.View(fx)
    Wview = _inl0.view_writes(fx, V0, tracked, W)          # private helpers (a `truncate_reverse_log`, a `build_rollback`) count where they are called
    # functions that cut the log back, directly or through a private helper (`truncate_reverse_log(len)`)
    cutters = {fn for fn, ws in W.items() if any(w['field'][0] == 'reverse_log' and w['how'].startswith('call:shrink:truncate') for w in ws)}
    for _ in range(3):
        cutters |= {fn for fn in fx.fns if fn not in reach and any(callee_of(t) in cutters for _, t in fx.fns[fn].calls())
                    and not any(is_machine(w) for w in W.get(fn, []))}
    for fn, ws in sorted(W.items()):
        if fn in reach or fn == rc.name or fn not in fx.fns:
            continue
        f = fx.fns[fn]
        cuts = {w['bb'] for w in ws if w['field'][0] == 'reverse_log' and w['how'].startswith('call:shrink:truncate')}
        if cuts:
            # the log is an Option: the place where it is opened for writing stands for the cut (nothing to cut when recording is off)
            cuts |= {ev['bb'] for ev in awrite.field_events(fx, f, {'state::State': {'reverse_log'}}) if ev['mut']}
        cuts |= {bb for bb, t in f.calls() if callee_of(t) in cutters}
        bad = []
        for w in ws:
            if not is_machine(w):
                continue
            n_out += 1
            if w['field'][0] == 'heap' and w['how'].startswith('call:grow'):
                continue
            if any(c == w['bb'] or f.dominates(c, w['bb']) or f.dominates(w['bb'], c) for c in cuts):
                continue
            bad.append('%s %s' % (field_id(w), w['how']))
        if bad or any(is_machine(w) for w in ws):
            rep.add('C02.R1', 'C02.R1:between-runs:%s' % fn, not bad,
                    'changes machine state only while rolling a rejected source back, log included' if not bad else
                    '%s changes machine state outside a logged step (%s): with recording on, rnext after it restores a state that never '
                    'existed (`: f 1 0 / ; 7 f` fails, `5`, one rnext leaves 7 1 0)' % (short(fn), ', '.join(sorted(set(bad)))[:160]), fn, f.j['span'])
    rep.floor('C02 machine-state writes outside run time', n_out, 5)
    # a length mark of the log is good for cutting back to only if nothing was logged between the state it belongs to and the
    # moment it was read: in a function that takes such a mark (reads the length without cutting), nothing that can log runs
    # after the read (build_mark halts the failed program first - a recorded step - and takes the mark then)
    growers_ = {fn for fn, ws in W.items() if any(w['field'][0] == 'reverse_log' and w['how'].startswith('call:grow') for w in ws)}
    log_fns_ = {fn for fn in fx.fns if growers_ & (fx.reachable_from([fn]) | {fn})}
    n_mark = 0
    for fn in sorted(fx.fns):
        if fn in reach:
            continue
        f = fx.fns[fn]
        evs = awrite.field_events(fx, f, {'state::State': {'reverse_log'}})
        if not evs or any(ev['mut'] for ev in evs) or any(w['field'][0] == 'reverse_log' for w in W.get(fn, [])):
            continue          # no access, or a writer (cut / push / pop): not a mark taker
        reads = {ev['bb'] for ev in evs}
        late_ = []
        for rb in reads:
            for b2 in blocks_after(f, rb):
                t2 = f.blocks[b2]['term']
                if t2['k'] == 'call' and callee_of(t2) in log_fns_:
                    late_.append(short(callee_of(t2)))
        n_mark += 1
        rep.add('C02.R3', 'C02.R3:log-mark-taken-last:%s' % fn, not late_,
                'the log is looked at after everything in the function that can log' if not late_ else
                '%s reads the length of the log and calls %s afterwards: what those calls log lies above the mark and is deleted when a '
                'rejected source is cut back to it (the halt of a failed program disappears from the history)' % (short(fn), sorted(set(late_))),
                fn, f.j['span'], nontrivial=bool(late_))
    rep.floor('C02.R3 functions that take a mark of the log', n_mark, 1)
    # rnext undoes entries down to the previous SetIp.  What was recorded outside a completed instruction - by the host between
    # two steps, by an instruction that failed half way - has no SetIp behind it and would be undone together with the next
    # thing recorded: every function that starts recording a new step (run, next, the halt of a failed program) first closes
    # such an open group (a function that looks at the last entry of the log and appends a SetIp when it is not one)
    closers = set()
    for fn, ws in W.items():
        f = fx.fns.get(fn)
        if f is None or fn in reach:
            continue
        pushes = [w for w in ws if w['field'][0] == 'reverse_log' and w['how'].startswith('call:grow')]
        looks = any((ev['callee'] or '').endswith('::last') for ev in awrite.field_events(fx, f, {'state::State': {'reverse_log'}}))
        setip = any(st['k'] == 'assign' and st['rv']['k'] == 'agg' and st['rv'].get('adt') == 'state::ReverseStep' and st['rv'].get('variant') == 'SetIp'
                    for bb in f.reachable_blocks() for st in f.blocks[bb]['stmts'])
        if pushes and looks and setip:
            closers.add(fn)
    from .. import stepfx as _sfx
    Vd = _inl0.View(fx)
    starters = sorted(c for c in _sfx.callers_seen_through(fx, Vd, 'state::State::fetch_and_run')
                      if c.split('::{closure')[0] in ('state::State::run', 'state::State::next'))
    # the halt: a function outside run time that sets the ip to the end of the code through the logging setter
    from .c10 import halt_sites as _halts
    for fn in sorted(fx.fns):
        if fn in reach or fn in starters or '{closure' in fn:
            continue
        if _halts(fx, W, fx.fns[fn], W.get(fn, [])):
            starters.append(fn)
    n_st = 0
    for fn in starters:
        f = fx.fns[fn]          # as written: the closer is a private helper, a view would splice it away
        firsts = [bb for bb, t in f.calls() if callee_of(t) == 'state::State::fetch_and_run' or callee_of(t) in _FX[1] or
                  (callee_of(t) in fx.fns and callee_of(t) in reach and any(is_machine(w) for w in W.get(callee_of(t), [])))]
        cl = [bb for bb, t in f.calls() if callee_of(t) in closers]
        n_st += 1
        okg = bool(cl) and all(any(f.dominates(c, b_) for c in cl) for b_ in firsts)
        rep.add('C02.R4', 'C02.R4:%s:closes-an-open-group-first' % fn, okg,
                'an open group on the log is closed before anything new is recorded' if okg else
                '%s records a new step without closing what was recorded since the last SetIp: `push_data(5); compile("1 +")`, two steps '
                'forward and two back leave [] instead of [5]; a failed `+` and its retry are undone by one rnext' % short(fn), fn, f.j['span'])
    rep.floor('C02.R4 functions that start recording a step', n_st, 3)

    # R3: arms
    for name in sorted(arms):
        tgt, region = arms[name]
        ws = arm_writes[name]
        key = 'C02.R3:arm:%s' % name
        if name == 'OverData':
            rep.add('C02.R3', key, True, 'reviewed exception (see log-without-write:over_data)', rc.name, rc.at(tgt))
            continue
        fields_ = sorted({field_id(w) for w in ws})
        # calls to recording primitives inside an arm
        prim_calls = []
        for b in region:
            t = rc.blocks[b]['term']
            if t['k'] == 'call':
                c = callee_of(t)
                if c in fx.fns and (c in _FX[1] or any(callee_of(t2) in _FX[1] for _, t2 in fx.fns[c].calls())):
                    prim_calls.append(short(c))
        ok = len(fields_) == 1 and not prim_calls
        if name not in logged_variants:
            rep.add('C02.R3', key, False, 'variant %s is never logged by any run-time function (dead arm or missing log)' % name,
                    rc.name, rc.at(tgt))
            continue
        rep.add('C02.R3', key, ok,
                'arm writes State.%s directly (%s)' % (fields_[0], ', '.join(sorted({kind_of(w) for w in ws}))) if ok else
                'arm writes %s and calls recording primitives %s' % (fields_, prim_calls), rc.name, rc.at(tgt))

    check_rnext(rep, fx, arms, arm_writes)
    check_log_retention(rep, fx, Wview, V0)
    from .. import inline
    V = inline.View(fx)
    farv = V('state::State::fetch_and_run')     # helpers shared by several arms (unnamed in any rule) are looked through
    Wv = dict(W)
    if farv is not far:
        Wv[far.name] = awrite.field_writes(fx, farv, tracked)
    check_r4(rep, fx, Wv, farv, reach, extra)


def check_rnext(rep, fx, arms, arm_writes):
    """rnext must re-read the live log after every reverse_changes call: an arm that goes through a recording
    primitive (the OverData exception) appends an entry that only a pop-per-iteration drain loop consumes."""
    from ..pathq import natural_loops
    rn = fx.need('state::State::rnext')
    rc_name = 'state::State::reverse_changes'
    pops = logfx.poppers(fx, awrite.all_field_writes(fx, 'state', _TRACKED[0]))

    def is_pop(t):
        c = callee_of(t)
        if c in pops:
            return True
        return (c or '').endswith('Vec::<T, A>::pop') and 'reverse_log' in expr_str(rn.expr_of_operand(t['args'][0]), -10)
    loops = natural_loops(rn)
    by_h = {}
    for h, body, tail in loops:
        by_h.setdefault(h, set()).update(body)
    n = 0
    ok_all = True
    why = ''
    for h, body in by_h.items():
        rc_blocks = [b for b in body if rn.blocks[b]['term']['k'] == 'call' and callee_of(rn.blocks[b]['term']) == rc_name]
        if not rc_blocks:
            continue
        n += 1
        pop_blocks = [b for b in body if rn.blocks[b]['term']['k'] == 'call' and is_pop(rn.blocks[b]['term'])]
        # every cycle through a reverse_changes call passes a pop of the live log
        from .c16 import cycle_without
        cyc = cycle_without(rn, h, body, set(pop_blocks))
        if cyc is not None or not pop_blocks:
            ok_all = False
            why = 'the undo loop of rnext applies entries without re-reading the live log (cycle bb%s has no log.pop())' % '->bb'.join(map(str, (cyc or [h])[:8]))
    if n == 0:
        ok_all = False
        why = 'rnext has no loop that applies log entries'
    rep.add('C02.R3', 'C02.R3:rnext:drains-live-log', ok_all,
            'each iteration pops one entry from the live log and applies it, stopping at (and re-queueing) the previous SetIp: entries appended '
            'by an arm (OverData -> pop_data logs PushData) are consumed in the same rewind' if ok_all else
            why + ': the entry appended by the OverData arm stays on the log (over is undone by two pops and a phantom instruction remains)',
            rn.name, rn.j['span'])
    # the stop condition: SetIp is re-queued
    requeue = any(callee_of(t) in _FX[1] for _, t in rn.calls())
    rep.add('C02.R3', 'C02.R3:rnext:requeues-boundary', requeue,
            'the SetIp that ends the drain is pushed back (it belongs to the previous instruction)' if requeue else
            'rnext does not push the boundary SetIp back', rn.name, rn.j['span'], nontrivial=False)


def check_log_retention(rep, fx, W, V=None):
    """the log keeps every entry until rnext consumes it: besides the push, State.reverse_log is changed only by the
    pop that feeds rnext and by switching recording on/off as a whole"""
    pops = logfx.poppers(fx, W)
    n = 0
    for fn, ws in sorted(W.items()):
        for w in ws:
            if w['field'][0] != 'reverse_log':
                continue
            n += 1
            how = w['how']
            if how.startswith('call:grow'):
                continue
            key = 'C02.R3:reverse_log:%s:%s' % (fn, how)
            if how.startswith('call:shrink:pop') and fn.split('::{closure')[0] == 'state::State::rnext':
                # with private helpers looked through, the pop of a `pop_reverse_step` method shows up in rnext itself
                rep.add('C02.R3', key, True, 'the pop that feeds rnext', fn, w['at'], nontrivial=False)
            elif how.startswith('call:shrink:pop') and fn in pops:
                callers = {c.split('::{closure')[0] for c in fx.callers().get(fn, ())} | {fn.split('::{closure')[0]}
                ok = callers <= {'state::State::rnext', fn}
                rep.add('C02.R3', key, ok, 'the pop that feeds rnext' if ok else
                        '%s pops the reverse log outside rnext (callers: %s): recorded steps disappear without being undone' % (short(fn), sorted(callers)),
                        fn, w['at'], nontrivial=False)
            elif fn == 'state::State::context_close' and how.startswith('call:shrink:truncate') and \
                    '.ctx.' in ' '.join(expr_str((V(fn) if V is not None else fx.fns[fn]).expr_of_operand(a), -12) for a in w['term']['args'][1:]):
                rep.add('C02.R3', key, True, 'entries logged by a build-time (meta) evaluation are dropped with the code they refer to', fn, w['at'],
                        nontrivial=False)
            elif how.startswith('call:shrink:truncate') and any(isinstance(x, tuple) and x[0] == 'arg' and x[1] >= 2 for a_ in w['term']['args'][1:]
                                                                for x in expr_walk((V(fn) if V is not None else fx.fns[fn]).expr_of_operand(a_))) \
                    and any(w2['field'][0] == 'code' and w2['how'].startswith('call:shrink') for w2 in W.get(fn, [])):
                rep.add('C02.R3', key, True, 'the rollback of a rejected source cuts the log back to the mark taken at its entry, together with the code '
                        'the entries refer to', fn, w['at'], nontrivial=False)
            elif fn == 'state::State::set_recording_enabled' and how.startswith('assign'):
                rep.add('C02.R3', key, True, 'recording switched on (empty log) / off (log dropped) as a whole', fn, w['at'], nontrivial=False)
            else:
                rep.add('C02.R3', key, False,
                        '%s changes State.reverse_log by %s: entries are removed or rewritten without being applied, so steps recorded earlier can no '
                        'longer be undone (or are undone only in part)' % (short(fn), how), fn, w['at'])
    rep.floor('C02.R3 reverse_log write events', n, 3)
    # build-time evaluation (`#( .. #)`, enum, const, ~) ) runs code that is purged when the block closes.  What it logged must go
    # too: the entries point into purged code, and the last of them has no SetIp after it, so rnext would apply it while undoing
    # the first instruction of the real program
    cc = fx.fns.get('state::State::context_close')
    if cc is None:
        raise MissingAnchor('state::State::context_close')
    from .. import inline
    ccv = inline.View(fx)('state::State::context_close')
    cuts = [w for w in awrite.field_writes(fx, ccv, _TRACKED[0]) if w['field'][0] == 'reverse_log' and w['how'].startswith('call:shrink:truncate')]
    okc = False
    for w in cuts:
        a = ' '.join(expr_str(ccv.expr_of_operand(x), -12) for x in w['term']['args'][1:])
        if '.ctx.' in a:
            for (b2, e, side) in edge_guards(ccv, w['bb']):
                if isinstance(e, tuple) and e[0] == 'call' and 'ContextMode' in e[1] and side:
                    okc = True
    # ... and the cut comes last: whatever the close itself does afterwards in the meta branch (turning the block's results into
    # literals pops them, and a pop is logged) would be left on the log
    growers = {fn for fn, ws in W.items() if any(w['field'][0] == 'reverse_log' and w['how'].startswith('call:grow') for w in ws)}
    log_fns = {fn for fn in fx.fns if growers & (fx.reachable_from([fn]) | {fn})}
    late = []
    for w in cuts:
        for b2 in blocks_after(ccv, w['bb']):
            t2 = ccv.blocks[b2]['term']
            if t2['k'] == 'call' and callee_of(t2) in log_fns:
                late.append(short(callee_of(t2)))
    rep.add('C02.R3', 'C02.R3:meta-evaluation-log-cut-comes-last', okc and not late,
            'nothing that can log runs in context_close after the cut' if okc and not late else
            'context_close calls %s after it has cut the log back: with recording on the entries those calls log stay behind although the block '
            'is gone (`#( 2 3 + #)` compiled with recording leaves a PushData step)' % sorted(set(late)), cc.name, cc.j['span'])
    rep.add('C02.R3', 'C02.R3:meta-evaluation-leaves-no-log-entries', okc,
            'context_close cuts the log back to the mark of the meta context' if okc else
            'what a meta block logs while it runs at build time stays on the reverse log: with recording on, compile(`#( 1 2 + #) 4`), '
            'two steps forward and two back leave 3 on the stack, and replay yields 3 3 4', cc.name, cc.j['span'])


def _log_after_join(f, wbb, guard):
    """write first, recording test later: every path from the write to a successful return passes the test
    (error exits taken before anything was logged - e.g. `pop().ok_or_else(..)?` - do not count)"""
    rt = f.local_ty(0)
    if 'Result<' in rt or 'Option<' in rt:
        oks = {bb for (bb, i, cls, d) in return_defs(f) if cls in ('ok', 'forward', 'other')}
    else:
        oks = set(f.return_blocks())
    if not oks:
        return False
    if wbb in oks and wbb != guard:
        return False
    return exists_path_avoiding(f, wbb, lambda b: b in oks, {guard}) is None


def _perm_sig(f, w):
    t = w.get('term')
    if not t:
        return None
    sig = []
    for a in t['args'][1:]:
        e = f.expr_of_operand(a)
        s = expr_str(e)
        # len - k
        import re
        m = re.findall(r'const (\d+)|, (\d+)\)', s)
        ks = [x[0] or x[1] for x in m]
        sig.append(ks[-1] if ks else s)
    return tuple(sig)


IPW = {'state::State::set_ip', 'state::State::next_ip'}


def check_r4(rep, fx, W, far, reach, extra):
    # opcode arms
    sw = None
    for bb in sorted(far.reachable_blocks()):
        t = far.blocks[bb]['term']
        if t['k'] == 'switch':
            e = far.expr_of_operand(t['discr'])
            if isinstance(e, tuple) and e[0] == 'discr' and e[2] == 'opcodes::Opcode':
                sw = bb
                break
    if sw is None:
        raise MissingAnchor('Opcode switch in fetch_and_run')
    variants = None
    for st in far.blocks[sw]['stmts']:
        if st['k'] == 'assign' and st['rv']['k'] == 'discr':
            variants = dict(st['rv']['variants'])
    if variants is None:
        for b2 in far.reachable_blocks():
            for st in far.blocks[b2]['stmts']:
                if st['k'] == 'assign' and st['rv']['k'] == 'discr' and st['rv'].get('adt') == 'opcodes::Opcode':
                    variants = dict(st['rv']['variants'])
    okret = [bb for (bb, i, cls, d) in return_defs(far) if cls == 'ok']
    errs = error_blocks(far)
    errret = [bb for (bb, i, cls, d) in return_defs(far) if cls == 'err']
    ipw_blocks = set()
    redispatch = set()
    for bb, t in far.calls():
        c = callee_of(t)
        if c in IPW:
            ipw_blocks.add(bb)
        elif c == far.name:
            redispatch.add(bb)
    # machine-state touching calls
    memo = {}

    def touches(c):
        if c not in fx.fns:
            return False
        if c in memo:
            return memo[c]
        memo[c] = False
        r = any(is_machine(w) for w in W.get(c, []))
        if not r:
            for d in fx.callgraph().get(c, ()):
                if d in fx.fns and touches(d):
                    r = True
                    break
        memo[c] = r
        return r
    t = far.blocks[sw]['term']
    n = 0
    for v, tgt in t['targets']:
        name = variants.get(v, str(v)) if variants else str(v)
        n += 1
        key = 'C02.R4:arm:%s' % name
        # (a) no path tgt -> ok return avoiding ip-write blocks
        stop = ipw_blocks | redispatch
        p = exists_path_avoiding(far, tgt, lambda b: b in okret, stop | errs) if tgt not in stop else None
        if p is not None:
            rep.add('C02.R4', key, False, 'arm %s can return Ok without set_ip/next_ip (path bb%s): rnext cannot find the instruction boundary'
                    % (name, '->bb'.join(map(str, p[:8]))), far.name, far.at(tgt))
            continue
        # (b) after an ip write: no further ip write, no machine-state call
        bad = None
        arm_region = blocks_after(far, tgt) | {tgt}
        for ib in (ipw_blocks | redispatch) & arm_region:
            after = blocks_after(far, ib)
            for b in after:
                tt = far.blocks[b]['term']
                if tt['k'] == 'call':
                    c = callee_of(tt)
                    if c in IPW or c == far.name:
                        bad = 'second ip write (%s) after bb%d' % (short(c), ib)
                    elif c is None:
                        bad = 'indirect call after the ip write'
                    elif touches(c):
                        bad = 'machine-state primitive %s called after the ip write: its log entry lands behind SetIp and is undone with the next instruction' % short(c)
                for w in W.get(far.name, []):
                    if w['bb'] == b and is_machine(w):
                        bad = 'direct write to %s after the ip write' % field_id(w)
        rep.add('C02.R4', key, bad is None,
                'exactly one ip write on every Ok path, nothing after it' if bad is None else 'arm %s: %s' % (name, bad),
                far.name, far.at(tgt))
    rep.floor('C02.R4 Opcode arms', n, 20)
    # set_ip / next_ip themselves: log precedes the write and carries the old ip -> covered by R2 instances

# as-built addendum
EXPLANATION += ' As built (DESIGN 9.2): R1 also between runs: outside the step function machine state changes only in the undo arms or while a rejected source is rolled back with the log cut on the same paths; the halt of a failed program goes through the logging primitives. R3 also: rnext drains the live log, the log shrinks only by that pop and by the cut at the close of a meta block (which comes last); no error exit lies between a log entry and its write; a length mark of the log is taken after everything that can log. R4 also: run, next and the halt close a group left open on the log before a new step is recorded.'
