"""C07 — binary construction is the inverse of binary parsing (thin claim).

R1 reader/packer word tables agree on width, signedness class and byte order;
R2 emit keeps output and output-length in step."""
import re
from ..core import callee_of, expr_walk, expr_str, return_defs, short, const_str, MissingAnchor, expr_subst_args, simplify, inline_local_calls
from .c06 import cell_of, WRITERS

EXPLANATION = (
    "The round trip itself (pack, concatenate, parse back, compare) is value-level and not decided. Decided from the MIR of "
    "the closures registered by bitstr_ext::load: R1 for every word named (u|i|f)(8|16|32|64)(le|be)?(!)? the width constant "
    "passed equals the number in the name, le/be words pass the matching Byteorder constant while unsuffixed words go through "
    "the current-byte-order wrapper, u/i/f select the unsigned/signed/float reader and `!` the int/float packer, and the name "
    "set is closed under reader<->packer and plain/le/be; the current-byte-order wrappers forward width and the order "
    "returned by current_byteorder(); the generic int/uint/float(!) words take the width from the stack and the current order. "
    "R2 in `emit` the length added to output-length is len() of the very bit-string appended to output, the length update "
    "dominates the append, only emit/intercept_output write the two cells, and nothing that can fail for a cell written only "
    "by them sits between the two updates. A field packed with X! is therefore read back by X with the same width, class and "
    "order - necessary for the round trip, not sufficient.")
RULE_TEXT = ("instances = one per registered data word (name decoded against callee + constants of its closure), wrappers, "
             "generic words, emit obligations; non-trivial = constant/callee extraction from closure MIR")
ASSUMPTIONS = ["rustc MIR / Instance resolution correct", "Byteorder::Little/Big constants mean what they say in Bitstr::to_uint/from_int (C05, not analysed)"]

NAME = re.compile(r'^(u|i|f)(8|16|32|64)(le|be)?(!)?$')
READ = {'u': 'bitstr_ext::read_unsigned', 'i': 'bitstr_ext::read_signed', 'f': 'bitstr_ext::read_float'}
READ_N = {'u': 'bitstr_ext::read_unsigned_n', 'i': 'bitstr_ext::read_signed_n', 'f': 'bitstr_ext::read_float_n'}
PACK = {'u': 'bitstr_ext::pack_int_bo', 'i': 'bitstr_ext::pack_int_bo', 'f': 'bitstr_ext::pack_float_bo'}
PACK_N = {'u': 'bitstr_ext::pack_int', 'i': 'bitstr_ext::pack_int', 'f': 'bitstr_ext::pack_float'}
ORDER = {'le': 'Little', 'be': 'Big'}


KNOWN = set(READ.values()) | set(READ_N.values()) | set(PACK.values()) | set(PACK_N.values()) | {'bitstr_ext::current_byteorder'}


def _keep(n):
    """names the tables are phrased in; any other bitstr_ext helper is looked through"""
    return not n.startswith('bitstr_ext::') or n in KNOWN


def _body_calls(fx, f, actuals, depth):
    for bb, t in f.calls():
        c = callee_of(t)
        if not c or not (c.startswith('bitstr_ext::') or c.startswith('bitstr::')):
            continue
        args = []
        for a in t['args']:
            e = f.expr_of_operand(a)
            if actuals is not None:
                e = expr_subst_args(e, actuals)
            args.append(simplify(inline_local_calls(fx, e, _keep)))
        if not _keep(c) and c in fx.fns and depth > 0 and '{closure' not in c:
            # an unnamed helper between the word and the reader/packer: its calls count as the word's
            for x in _body_calls(fx, fx.fns[c], args, depth - 1):
                yield x
            continue
        yield c, args, t.get('at'), f


def single_call(fx, target):
    """[(callee, [const ints], [byteorder names], at)] of a registered closure/fn body (helpers looked through)"""
    f = fx.fns.get(target)
    if f is None:
        return None
    calls = []
    for c, args, at, g in _body_calls(fx, f, None, 2):
        ints, orders = [], []
        for e in args[1:]:
            for x in expr_walk(e):
                if isinstance(x, tuple) and x[0] == 'const':
                    c0 = x[1]
                    if 'v' in c0 and 'usize' in g.ty(c0['t']):
                        ints.append(c0['v'])
                    cp = c0.get('cpath', '')
                    if cp in ('bitstr::LITTLE', 'bitstr::BIG'):
                        orders.append('Little' if cp.endswith('LITTLE') else 'Big')
                if isinstance(x, tuple) and x[0] == 'agg' and x[1] == 'bitstr::Byteorder':
                    orders.append(x[2])
                if isinstance(x, tuple) and x[0] == 'call' and x[1] == 'bitstr_ext::current_byteorder':
                    orders.append('current')
                if isinstance(x, tuple) and x[0] == 'call' and x[1] == 'cell::Cell::to_usize':
                    ints.append('stack')
                if isinstance(x, tuple) and x[0] == 'arg':
                    ints.append('arg%d' % x[1])
        calls.append((c, ints, orders, at))
    return calls


def run(rep, facts, tier):
    fx = facts['dev']
    rep.rule('C07.R1', 'reader/packer word tables: width constant, byte-order constant, reader/packer class agree with the word name; name set closed')
    rep.rule('C07.R2', 'emit keeps output and output-length in step')
    words = {w['name']: w for w in fx.registry()['words'] if w['in'] == 'bitstr_ext::load'}
    data = {n: w for n, w in words.items() if n and NAME.match(n)}
    rep.floor('C07.R1 data words', len(data), 60)
    # a reading word accepts what the packers put in front of ANY following field: it does not fail because of what comes after the
    # bits it reads.  Every reader that looks at the whole rest of the input (the NUL-terminated strings scan it): an error exit
    # that depends on a property of that rest (whole bytes?) also depends on the scan having run into it
    from ..pathq import edge_guards, error_blocks
    n_rest = 0
    for fn in sorted(fx.fns):
        f = fx.fns[fn]
        if not fn.startswith('bitstr_ext::') or not any(callee_of(t) == 'bitstr_ext::rest_bits' for _, t in f.calls()):
            continue
        n_rest += 1
        bad = None
        for eb in error_blocks(f):
            gs = [expr_str(e, -10) for (_b, e, _s) in edge_guards(f, eb)]
            on_rest = [g for g in gs if 'rest_bits' in g and ('is_bytestr' in g or 'is_u8_slice' in g or 'Rem(' in g)]
            others = [g for g in gs if g not in on_rest]
            if on_rest and not others:
                bad = (eb, on_rest[0])
        rep.add('C07.R1', 'C07.R1:reader-does-not-depend-on-what-follows:%s' % fn, bad is None,
                'no error exit of %s depends on the shape of the rest of the input alone' % short(fn) if bad is None else
                '%s fails when the rest of the input is not whole bytes (%s), before it has looked for the end of its own field: a string '
                'followed by a 5-bit field cannot be parsed back (`[ 5 3 uint! "ab" 0 u8! 17 5 uint! ] >bitstr open-bitstr 3 uint cstr`)'
                % (short(fn), bad[1][:60]), fn, f.at(bad[0]) if bad else f.j['span'])
    rep.floor('C07.R1 readers that scan the rest of the input', n_rest, 1)
    for n in sorted(data):
        t, w, o, bang = NAME.match(n).groups()
        w = int(w)
        calls = single_call(fx, data[n]['target'])
        key = 'C07.R1:%s' % n
        main = [c for c in (calls or []) if c[0] in set(READ.values()) | set(READ_N.values()) | set(PACK.values()) | set(PACK_N.values())]
        if len(main) != 1:
            rep.add('C07.R1', key, False, 'word %s: expected exactly one reader/packer call in its body, found %s' % (n, [short(c[0]) for c in calls or []]),
                    data[n]['target'], data[n]['at'])
            continue
        c, ints, orders, at = main[0]
        want = (PACK if o else PACK_N)[t] if bang else (READ if o else READ_N)[t]
        problems = []
        if c != want:
            problems.append('calls %s, name says %s' % (short(c), short(want)))
        if w not in ints:
            problems.append('width constant %s, name says %d' % (ints, w))
        if o and ORDER[o] not in orders:
            problems.append('byte order %s, name says %s' % (orders or 'none (current order)', ORDER[o]))
        if o and any(x != ORDER[o] for x in orders):
            problems.append('byte order %s, name says %s' % (orders, ORDER[o]))
        if not o and orders:
            problems.append('unsuffixed word pins byte order %s' % orders)
        rep.add('C07.R1', key, not problems,
                '%s(%s%s)' % (short(c), w, ', ' + ORDER[o] if o else ', current order') if not problems else
                'word `%s`: %s' % (n, '; '.join(problems)), data[n]['target'], at)
    # closure of the name set
    missing = []
    for t in 'uif':
        for w in ((8, 16, 32, 64) if t != 'f' else (32, 64)):
            for o in ('', 'le', 'be'):
                for b in ('', '!'):
                    nm = '%s%d%s%s' % (t, w, o, b)
                    if nm not in data:
                        missing.append(nm)
    extra = [n for n in data if (n[0] == 'f' and NAME.match(n).group(2) in ('8', '16'))]
    rep.add('C07.R1', 'C07.R1:name-set-closed', not missing and not extra,
            'every (class, width) has reader and packer in plain/le/be form' if not missing and not extra else
            'missing words: %s unexpected: %s' % (missing, extra), 'bitstr_ext::load', fx.need('bitstr_ext::load').j['span'])
    # wrappers
    for wrap, inner in (('bitstr_ext::read_unsigned_n', 'bitstr_ext::read_unsigned'), ('bitstr_ext::read_signed_n', 'bitstr_ext::read_signed'),
                        ('bitstr_ext::read_float_n', 'bitstr_ext::read_float'), ('bitstr_ext::pack_int', 'bitstr_ext::pack_int_bo'),
                        ('bitstr_ext::pack_float', 'bitstr_ext::pack_float_bo')):
        calls = single_call(fx, wrap)
        f = fx.need(wrap)
        main = [c for c in calls if c[0] == inner]
        ok = len(main) == 1 and 'arg2' in main[0][1] and main[0][2] == ['current']
        rep.add('C07.R1', 'C07.R1:wrapper:%s' % wrap, ok,
                'forwards its width and current_byteorder() to %s' % short(inner) if ok else
                '%s does not forward (width, current byte order) to %s: %s' % (short(wrap), short(inner), [(short(c[0]), c[1], c[2]) for c in calls]),
                wrap, f.j['span'])
    # failure modes of the packers: a field the reader words can produce must be packable.  The packers fail only the way
    # every word can (stack underflow / wrong operand type / stack limit) and, for floats, on an unsupported width - the
    # same test the float reader has.  Any other error constructed on the way (helpers looked through) rejects values.
    from .. import inline
    V = inline.View(fx)
    PACK_FAIL_OK = ('state::State::pop_data', 'cell::Cell::to_xint', 'cell::Cell::to_real', 'cell::Cell::to_usize', 'state::State::push_data',
                    'bitstr_ext::current_byteorder', 'bitstr_ext::pack_int_bo', 'bitstr_ext::pack_float_bo')
    for pk in ('bitstr_ext::pack_int_bo', 'bitstr_ext::pack_float_bo', 'bitstr_ext::pack_int', 'bitstr_ext::pack_float'):
        fx.need(pk)
        f = V(pk)
        bad = []
        for bb, t in f.calls():
            c = callee_of(t)
            if c in fx.fns and 'Result<' in fx.fns[c].local_ty(0) and c not in PACK_FAIL_OK:
                bad.append('calls fallible %s' % short(c))
        for bb in f.reachable_blocks():
            for st in f.blocks[bb]['stmts']:
                if st['k'] == 'assign' and st['rv']['k'] == 'agg' and st['rv'].get('adt') == 'error::Xerr' and not st.get('exp'):
                    bad.append('constructs Xerr::%s' % st['rv'].get('variant'))
                if st['k'] == 'assign' and st['rv']['k'] == 'agg' and st['rv'].get('adt') == 'core::result::Result' and st['rv'].get('variant') == 'Err':
                    e = expr_str(f.expr_of_operand(st['rv']['fields'][0]), -30)
                    if 'bitstr_ext::float_len_err' not in e:   # the unsupported-width error shared with read_float
                        bad.append('returns Err(%s)' % e[:40])
        rep.add('C07.R1', 'C07.R1:packer-failure-modes:%s' % pk, not bad,
                'fails only on stack / operand-type errors%s' % (' and unsupported float width' if 'float' in pk else '') if not bad else
                '%s has a failure mode of its own (%s): some (width, value) the matching reader word produces cannot be packed back'
                % (short(pk), '; '.join(sorted(set(bad)))), pk, f.j['span'])
    # widths: the packers take any width, the integer readers must accept every width up to 128 for both signednesses; a
    # refusal may depend on the VALUE not fitting the integer type, never on a width <= 128 alone
    from .c08 import guard_facts
    from ..zone import strip as zstrip, lin
    for rd in ('bitstr_ext::read_unsigned', 'bitstr_ext::read_signed'):
        fx.need(rd)
        f = V(rd)
        worst = None
        for bb in f.reachable_blocks():
            for st in f.blocks[bb]['stmts']:
                if st['k'] == 'assign' and st['rv']['k'] == 'agg' and st['rv'].get('adt') == 'error::Xerr' and st['rv'].get('variant') == 'IntegerOverflow':
                    for (op, a, b) in guard_facts(f, bb):
                        sa = expr_str(zstrip(a), -12)
                        lb = lin(b)
                        if op in ('Gt', 'Ge') and 'Bitstr::len' in sa and lb is not None and not lb[0]:
                            first_refused = lb[1] + 1 if op == 'Gt' else lb[1]
                            others = [g for g in guard_facts(f, bb) if not ('Bitstr::len' in expr_str(zstrip(g[1]), -12))]
                            if not others:
                                worst = first_refused if worst is None else min(worst, first_refused)
        ok = worst is None or worst > 128
        rep.add('C07.R1', 'C07.R1:reader-width-limit:%s' % rd, ok,
                'no width up to 128 is refused by its length alone' if ok else
                '%s refuses every field of %d bits and more whatever its value: a %d-bit field written by the packer cannot be read back'
                % (short(rd), worst, worst), rd, f.j['span'])
    # generic words
    GENERIC = {'int': 'bitstr_ext::read_signed', 'uint': 'bitstr_ext::read_unsigned', 'float': 'bitstr_ext::read_float',
               'int!': 'bitstr_ext::pack_int', 'uint!': 'bitstr_ext::pack_int', 'float!': 'bitstr_ext::pack_float_bo'}
    for n, want in GENERIC.items():
        w_ = words.get(n)
        if not w_:
            rep.add('C07.R1', 'C07.R1:%s' % n, False, 'generic word `%s` not registered' % n, 'bitstr_ext::load')
            continue
        calls = single_call(fx, w_['target'])
        main = [c for c in calls if c[0] == want]
        ok = len(main) == 1 and 'stack' in main[0][1] and (main[0][2] == ['current'] or want == 'bitstr_ext::pack_int')
        rep.add('C07.R1', 'C07.R1:%s' % n, ok,
                '%s(width from stack, current order)' % short(want) if ok else
                'generic word `%s` should call %s with the popped width and the current byte order: %s' % (n, short(want), [(short(c[0]), c[1], c[2]) for c in calls]),
                w_['target'], w_['at'])
    check_emit(rep, fx)


def check_emit(rep, fx):
    from .. import inline
    from ..logfx import _subst_upvars
    V = inline.View(fx)
    fx.need('bitstr_ext::word_emit')
    f = V('bitstr_ext::word_emit')       # unnamed helpers of emit are looked through
    # who may write output / output_len
    n = 0
    for fn in sorted(fx.fns):
        if V.transparent(fn) and fx.callers().get(fn):
            continue
        g = V(fn)
        for bb, t in g.calls():
            if callee_of(t) in WRITERS and len(t['args']) > 1:
                cell = cell_of(g, t['args'][1])
                if cell in ('output', 'output_len'):
                    n += 1
                    ok = fn in ('bitstr_ext::word_emit', 'bitstr_ext::intercept_output')
                    rep.add('C07.R2', 'C07.R2:write:%s:%s' % (cell, fn), ok, 'written by emit / intercept_output' if ok else
                            '%s writes the `%s` cell: output and output-length can drift apart' % (short(fn), cell), fn, t.get('at'), nontrivial=False)
    rep.floor('C07.R2 output cell write sites', n, 4)
    # a fresh capture buffer starts at length 0: wherever `output` is (re)set to an empty bit-string, `output-length` is reset too
    for fn in sorted(fx.fns):
        if V.transparent(fn) and fx.callers().get(fn):
            continue
        g = V(fn)
        outs = [(bb, t) for bb, t in g.calls() if callee_of(t) in WRITERS and len(t['args']) > 2 and cell_of(g, t['args'][1]) == 'output']
        lens = {bb for bb, t in g.calls() if callee_of(t) in WRITERS and len(t['args']) > 1 and cell_of(g, t['args'][1]) == 'output_len'}
        for bb, t in outs:
            v = expr_str(g.expr_of_operand(t['args'][2]), -20)
            if 'Bitstr::new' not in v and 'Default>::default' not in v and 'BitstrRange' not in v:
                continue
            ok = any(g.dominates(b2, bb) or g.dominates(bb, b2) for b2 in lens)
            rep.add('C07.R2', 'C07.R2:%s:fresh-output-resets-length' % fn, ok,
                    'the length cell is reset together with the buffer' if ok else
                    '%s installs an empty `output` but leaves `output-length` at its old value: after a capture is restarted the two '
                    'no longer describe the same buffer' % short(fn), fn, t.get('at'))
    upd = [(bb, t) for bb, t in f.calls() if callee_of(t) == 'state::State::update_var' and cell_of(f, t['args'][1]) == 'output_len']
    sets = [(bb, t) for bb, t in f.calls() if callee_of(t) == 'state::State::set_var' and cell_of(f, t['args'][1]) == 'output']
    if not upd or not sets:
        rep.add('C07.R2', 'C07.R2:emit:both-updates', False, 'emit does not update both output-length (update_var) and output (set_var)', f.name, f.j['span'])
        return
    ub, ut = upd[0]
    sb, st = sets[0]
    # the popped bit-string
    pops = [bb for bb, t in f.calls() if callee_of(t) == 'state::State::pop_data']
    # closure adds len of captured bs
    clo = None
    e = f.expr_of_operand(ut['args'][2])
    for x in expr_walk(e):
        if isinstance(x, tuple) and x[0] == 'closure':
            clo = x
    ok_len = False
    why = 'update_var closure not found'
    if clo:
        cf = fx.fns.get(clo[1])
        captured = expr_str(clo[2][0], -20) if clo[2] else ''
        adds_len = False
        if cf:
            from ..core import unwrap_value
            for (bb, i, cls, d) in return_defs(cf):
                if cls != 'ok':
                    continue
                e0 = _subst_upvars(cf.expr_of_local(0), clo[2])      # captured values written in emit's terms
                for x in expr_walk(e0):
                    if isinstance(x, tuple) and x[0] == 'call' and 'From<usize>' in x[1] and x[2]:
                        v = x[2][0]
                        # (a + b).0 of AddWithOverflow, or plain Add
                        while isinstance(v, tuple) and v[0] == 'proj':
                            v = v[1]
                        v = unwrap_value(v)
                        if isinstance(v, tuple) and v[0] == 'call' and v[1].endswith('::checked_add') and len(v[2]) == 2:
                            v = ('bin', 'Add', v[2][0], v[2][1])
                        if isinstance(v, tuple) and v[0] == 'bin' and v[1].startswith('Add'):
                            a, b = unwrap_value(v[2]), unwrap_value(v[3])
                            names = sorted(z[1] for z in (a, b) if isinstance(z, tuple) and z[0] == 'call')
                            if names == ['bitstr::Bitstr::len', 'cell::Cell::to_usize']:
                                adds_len = True
                                lens = [z for z in (a, b) if isinstance(z, tuple) and z[0] == 'call' and z[1] == 'bitstr::Bitstr::len']
                                captured = expr_str(lens[0], -30)
        from_pop = 'pop_data' in captured and 'to_bitstr' in captured
        ok_len = adds_len and from_pop
        why = ('output-length += len(bs) for the popped bit-string bs' if ok_len else
               'length update is not old + bs.len() of the popped bit-string (adds_len=%s captured=%s)' % (adds_len, captured[:60]))
    rep.add('C07.R2', 'C07.R2:emit:length-adds-len-of-emitted', ok_len, why, f.name, ut.get('at'))
    sv = expr_str(f.expr_of_operand(st['args'][2]), -20)
    ok_app = 'Bitstr::append' in sv and 'get_var' in sv and 'pop_data' in sv
    rep.add('C07.R2', 'C07.R2:emit:output-appends-same-bitstr', ok_app,
            'output := output.append(bs) for the same popped bs' if ok_app else 'output is not old_output.append(popped bit-string): %s' % sv[:80],
            f.name, st.get('at'))
    dom = f.dominates(ub, sb)
    rep.add('C07.R2', 'C07.R2:emit:length-update-dominates-append', dom,
            'every append to output is preceded by the length update' if dom else 'output can be appended without the length update', f.name, st.get('at'))
    # fallible steps between the two updates
    cont = None
    from ..pathq import try_continue_block, blocks_after
    cont = try_continue_block(f, ub)
    between = (blocks_after(f, cont) | {cont}) & {b for b in f.reachable_blocks() if f.dominates(b, sb) or b == sb} if cont is not None else set()
    bad = []
    for b in between:
        if b == sb:
            continue
        tt = f.blocks[b]['term']
        if tt['k'] == 'call':
            c = callee_of(tt)
            if c in fx.fns and 'Result' in fx.fns[c].local_ty(0) and c not in ('state::State::get_var', 'cell::Cell::to_bitstr'):
                bad.append(short(c))
    rep.add('C07.R2', 'C07.R2:emit:nothing-else-fallible-between', not bad,
            'between the two updates only get_var(output) and to_bitstr() can fail, and not for a cell only emit/intercept_output write'
            if not bad else 'fallible step(s) %s between length update and append: an error leaves them out of step' % bad, f.name, f.at(sb))

# as-built addendum
EXPLANATION += ' As built (DESIGN 9.2): R1 also: packers have no failure mode of their own and a reader accepts every width its packer produces; R2 also: a fresh capture buffer starts at length 0. R1 also: no error exit of a reader that scans the rest of the input depends on the shape of that rest alone.'
