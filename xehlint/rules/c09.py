"""C09 — arithmetic, comparison and bitwise words (structural part).

R1 integer operators come from the total families; R2 the division family has
an exact zero test; R3 a type error reports one of the actual operands;
R4 each word applies the operator its name says (word <-> operator table)."""
from ..core import callee_of, expr_walk, expr_str, return_defs, short, op_place, MissingAnchor, unwrap_value
from ..pathq import bool_branch, cmp_of

EXPLANATION = (
    "Exactness of every result is numerical and not decided. Decided from MIR for every word registered by arith::load "
    "(word function + its closures + the arith helpers it reaches + the operator fn items/closures it passes): R1 the set of "
    "operations applied to i128 values contains no bare + - * / % << >> or unary minus (whose MIR carries an overflow/zero "
    "Assert: panic in one profile, wrap in the other) and no inherit-overflow std function (abs, pow, ...): only wrapping_*, "
    "checked_* (None mapped to an error), bit operators, comparisons, min/max, count_ones. R2 every division-family "
    "operation (checked_div, wrapping_rem, f64 `/`) is dominated by a branch `divisor == 0` (exact equality with the constant "
    "zero) whose true side constructs DivisionByZero. R3 every num_type_error(val) / TypeErrorMsg in these words takes val "
    "from a pop_data of the same invocation, never from a later stack access. R4 the operator signature of each word equals "
    "the reviewed table (+ is wrapping_add / f64 add, < is Ord::cmp on the operands themselves with no arithmetic in "
    "between, bsl is wrapping_shl, ...), so a word cannot silently apply another total operator. Necessary conditions for "
    "'wrapped value or overflow error, never any other value'; not a proof of the numerical results.")
RULE_TEXT = ("instances = one operator signature per arith word (33 words), one zero-test obligation per division-family "
             "site, one provenance obligation per type-error construction; non-trivial = inter-procedural signature "
             "extraction / dominance / provenance")
ASSUMPTIONS = ["rustc MIR / Instance resolution correct", "i128::wrapping_*/checked_* and f64 operators behave as documented"]

I = 'core::num::<impl i128>::'
F = 'core::f64::<impl f64>::'
TABLE = {
    '+': {'fn:' + I + 'wrapping_add', 'fn:<f64 as core::ops::arith::Add>::add'},
    '-': {'fn:' + I + 'wrapping_sub', 'fn:<f64 as core::ops::arith::Sub>::sub'},
    '*': {'fn:' + I + 'wrapping_mul', 'fn:<f64 as core::ops::arith::Mul>::mul'},
    '/': {'call:' + I + 'checked_div', 'bin:Div:f64', 'bin:Eq:f64', 'bin:Eq:i128'},
    'rem': {'call:' + I + 'wrapping_rem', 'bin:Rem:f64', 'bin:Eq:i128'},
    'neg': {'call:' + I + 'checked_neg', 'call:<&f64 as core::ops::arith::Neg>::neg'},
    'abs': {'call:' + I + 'checked_abs', 'call:' + F + 'abs'},
    'min': {'call:core::cmp::Ord::min', 'call:' + F + 'min'},
    'max': {'call:core::cmp::Ord::max', 'call:' + F + 'max'},
    'band': {'fn:<i128 as core::ops::bit::BitAnd>::bitand'},
    'bor': {'fn:<i128 as core::ops::bit::BitOr>::bitor'},
    'bxor': {'fn:<i128 as core::ops::bit::BitXor>::bitxor'},
    'bnot': {'un:Not:i128'},
    'bsl': {'call:' + I + 'wrapping_shl', 'cast:i128->u32'},
    'bsr': {'call:' + I + 'wrapping_shr', 'cast:i128->u32'},
    'popcnt': {'call:' + I + 'count_ones'},
    'round': {'call:std::f64::<impl f64>::round'},
    '>real': {'cast:i128->f64'},
    '>int': {'cast:f64->i128'},
    'zero?': {'bin:Eq:i128', 'bin:Eq:f64'},
    'positive?': {'bin:Gt:i128', 'bin:Gt:f64'},
    'negative?': {'bin:Lt:i128', 'bin:Lt:f64'},
}
CMP_SIG = {'call:core::cmp::impls::<impl core::cmp::Ord for i128>::cmp', 'bin:Lt:f64', 'bin:Gt:f64'}
for _w in ('<', '<=', '>', '>=', '==', '<>'):
    TABLE[_w] = set(CMP_SIG)
ORDER_TEST = {'<': 'is_lt', '<=': 'is_le', '>': 'is_gt', '>=': 'is_ge', '==': 'is_eq', '<>': 'is_ne'}
IGNORED_WORDS = {'and', 'or', 'xor', 'not', 'random'}

BARE_BAD = ('Add', 'Sub', 'Mul', 'Div', 'Rem', 'Shl', 'Shr', 'AddWithOverflow', 'SubWithOverflow', 'MulWithOverflow',
            'AddUnchecked', 'SubUnchecked', 'MulUnchecked', 'ShlUnchecked', 'ShrUnchecked')
INHERIT_BAD = ('abs', 'pow', 'div_euclid', 'rem_euclid', 'isqrt', 'ilog', 'ilog2', 'ilog10', 'next_power_of_two', 'abs_diff')


def ops_of(fx, fn, seen=None):
    seen = seen if seen is not None else set()
    if fn in seen or fn not in fx.fns:
        return set()
    seen.add(fn)
    f = fx.fns[fn]
    out = set()

    def num_ty(o):
        pa = op_place(o)
        if pa is not None:
            return f.ty(pa['t'])
        c = o.get('c')
        return f.ty(c['t']) if c else '?'
    for bb in f.reachable_blocks():
        for st in f.blocks[bb]['stmts']:
            if st['k'] != 'assign':
                continue
            rv = st['rv']
            if rv['k'] == 'bin':
                t = num_ty(rv['a'])
                if t in ('i128', 'f64'):
                    out.add('bin:%s:%s' % (rv['op'], t))
            elif rv['k'] == 'un':
                t = num_ty(rv['a'])
                if t in ('i128', 'f64'):
                    out.add('un:%s:%s' % (rv['op'], t))
            elif rv['k'] == 'cast':
                c = rv['o'].get('c')
                if c and ('fn' in c or 'closure' in c):
                    n = c.get('rfn') or c.get('fn') or c.get('closure')
                    if n in fx.fns:
                        out |= ops_of(fx, n, seen)
                    elif n.startswith('core::cmp::Ordering::is_'):
                        out.add('ordtest:' + n.split('::')[-1])    # the test handed to a helper as a function pointer
                    else:
                        out.add('fn:' + n)
                else:
                    to, frm = f.ty(rv['to']), num_ty(rv['o'])
                    if ({to, frm} & {'i128', 'f64'}) and to != frm and frm != '?':
                        out.add('cast:%s->%s' % (frm, to))
            elif rv['k'] == 'agg' and rv.get('ak') == 'closure':
                out |= ops_of(fx, rv['closure'], seen)
        t = f.blocks[bb]['term']
        if t['k'] == 'call':
            c = callee_of(t)
            if c is None:
                continue
            if c in fx.fns and c.startswith('arith::'):
                out |= ops_of(fx, c, seen)
            elif _numeric_callee(c):
                out.add('call:' + c)
            elif c.endswith('PartialOrd for f64>::partial_cmp'):
                # the IEEE order of two reals, which the comparison words otherwise spell `a < b` / `a > b`
                out |= {'bin:Lt:f64', 'bin:Gt:f64'}
            elif c.startswith('core::cmp::Ordering::is_'):
                out.add('ordtest:' + c.split('::')[-1])
            for a in t['args']:
                cc = a.get('c')
                if cc and ('fn' in cc or 'closure' in cc):
                    n = cc.get('rfn') or cc.get('fn') or cc.get('closure')
                    if n in fx.fns:
                        out |= ops_of(fx, n, seen)
                    elif n.startswith('core::cmp::Ordering::is_'):
                        out.add('ordtest:' + n.split('::')[-1])    # the test handed to a helper as a function value
                    else:
                        out.add('fn:' + n)
    return out


def _numeric_callee(c):
    if 'impl i128' in c or 'impl f64' in c or 'impl u128' in c or 'impl u32' in c and 'wrapping' in c:
        return True
    if c.startswith('<i128 as') or c.startswith('<f64 as') or c.startswith('<&f64 as') or c.startswith('<&i128 as'):
        return 'clone' not in c.lower() and 'From' not in c and 'fmt' not in c and 'Default' not in c
    if c in ('core::cmp::Ord::cmp', 'core::cmp::Ord::min', 'core::cmp::Ord::max', 'core::cmp::impls::<impl core::cmp::Ord for i128>::cmp',
             'core::cmp::PartialOrd::partial_cmp'):
        return True
    return False


def run(rep, facts, tier):
    fx = facts['dev']
    rep.rule('C09.R1', 'integer operators come from the total families (no bare + - * / % << >>, no inherit-overflow std function)')
    rep.rule('C09.R2', 'the division family has an exact zero test whose true side is DivisionByZero')
    rep.rule('C09.R3', 'a type error reports one of the actual operands (value popped in the same invocation)')
    rep.rule('C09.R4', 'each word applies the operator its name says (operator signature equals the reviewed table)')
    words = [w for w in fx.registry()['words'] if w['in'] == 'arith::load']
    rep.floor('C09 arith words', len(words), 33)
    for w in sorted(words, key=lambda x: x['name']):
        name, target = w['name'], w['target']
        if name in IGNORED_WORDS:
            continue
        ops = ops_of(fx, target)
        f = fx.fns.get(target)
        at = w['at']
        # R1
        bad = sorted(o for o in ops if (o.startswith('bin:') and o.split(':')[1] in BARE_BAD and o.endswith(':i128')) or
                     (o.startswith('un:Neg') and o.endswith(':i128')) or
                     ((o.startswith('call:') or o.startswith('fn:')) and 'impl i128' in o and o.split('::')[-1] in INHERIT_BAD) or
                     ((o.startswith('call:') or o.startswith('fn:')) and o.startswith(('call:<i128 as core::ops::arith', 'fn:<i128 as core::ops::arith'))))
        rep.add('C09.R1', 'C09.R1:%s' % name, not bad,
                'integer operations: %s' % sorted(short(o) for o in ops if 'i128' in o) if not bad else
                'word `%s` applies %s to i128 operands: overflow / zero divisor panics with overflow checks on and silently wraps without' % (name, [short(b) for b in bad]),
                target, at)
        # R4
        want = TABLE.get(name)
        if want is None:
            rep.add('C09.R4', 'C09.R4:%s' % name, False, 'word `%s` is not in the reviewed operator table (new arithmetic word?)' % name, target, at)
        else:
            norm = lambda S: {o.split(':', 1)[1] if o.startswith(('fn:', 'call:')) else o for o in S}
            sig = {o for o in ops if not o.startswith('ordtest:')}
            extra, missing = norm(sig) - norm(want), norm(want) - norm(sig)
            rep.add('C09.R4', 'C09.R4:%s' % name, not extra and not missing,
                    'operator signature matches: %s' % sorted(short(o) for o in ops) if not extra and not missing else
                    'word `%s` has operator signature %s; reviewed table says %s (unexpected %s, missing %s)' %
                    (name, sorted(short(o) for o in ops), sorted(short(o) for o in want), sorted(short(o) for o in extra), sorted(short(o) for o in missing)),
                    target, at)
        # comparison words: which Ordering test
        if name in ORDER_TEST and f is not None:
            tests = {o.split(':', 1)[1] for o in ops if o.startswith('ordtest:')}
            ok = tests == {ORDER_TEST[name]}
            rep.add('C09.R4', 'C09.R4:%s:ordering-test' % name, ok, 'Ordering::%s' % ORDER_TEST[name] if ok else
                    'word `%s` tests the ordering with %s, expected %s' % (name, sorted(tests), ORDER_TEST[name]), target, at)
    check_cmp_operands(rep, fx)
    check_zero_tests(rep, fx)
    check_type_errors(rep, fx)


def check_cmp_operands(rep, fx):
    """compare_cells compares the popped operands themselves: a.cmp(b) with a = to_xint(pop #2), b = value of pop #1"""
    f = fx.need('arith::compare_cells')
    ok = False
    why = 'no Ord::cmp call on the operands'
    for bb, t in f.calls():
        c = callee_of(t) or ''
        if c.endswith('Ord for i128>::cmp') or c == 'core::cmp::Ord::cmp':
            a = unwrap_value(f.expr_of_operand(t['args'][0]))
            b = f.expr_of_operand(t['args'][1])
            sa, sb = expr_str(a, -20), expr_str(b, -20)
            direct = sa.startswith('cell::Cell::to_xint(') and 'pop_data' in sa and 'pop_data' in sb and 'wrapping' not in sa + sb and 'bin' not in sa + sb
            ok = direct
            why = 'a.cmp(b) on the two popped integers' if ok else 'Ord::cmp is applied to %s and %s, not to the operands themselves' % (sa[:50], sb[:50])
    if not ok:
        # the same comparison handed to Result::map as a closure: `lhs.to_xint().map(|a| a.cmp(b))`
        for bb, t in f.calls():
            c = callee_of(t) or ''
            if not c.endswith('Result::<T, E>::map') or len(t['args']) != 2:
                continue
            recv = expr_str(f.expr_of_operand(t['args'][0]), -20)
            clos = [x for x in expr_walk(f.expr_of_operand(t['args'][1])) if isinstance(x, tuple) and x and x[0] == 'closure']
            if not (recv.startswith('cell::Cell::to_xint(') and 'pop_data' in recv and 'wrapping' not in recv and clos and clos[0][1] in fx.fns):
                continue
            g2 = fx.fns[clos[0][1]]
            for _, t2 in g2.calls():
                c2 = callee_of(t2) or ''
                if c2.endswith('Ord for i128>::cmp') or c2 == 'core::cmp::Ord::cmp':
                    sa, sb = expr_str(g2.expr_of_operand(t2['args'][0]), -10), expr_str(g2.expr_of_operand(t2['args'][1]), -10)
                    caps = repr(clos[0])
                    if 'arg2' in sa and 'arg1' in sb and 'bin' not in sa + sb and 'wrapping' not in sa + sb and 'pop_data' in caps:
                        ok, why = True, 'a.cmp(b) on the two popped integers (as the closure of Result::map)'
    rep.add('C09.R4', 'C09.R4:compare_cells:compares-operands', ok, why, f.name, f.j['span'])
    g = fx.need('arith::compare_reals')
    txt = []
    for bb in g.reachable_blocks():
        br = bool_branch(g, bb)
        if br:
            c = cmp_of(br[0])
            if c:
                txt.append((c[0], expr_str(c[1]), expr_str(c[2])))
    okr = sorted(txt) == [('Gt', 'arg1', 'arg2'), ('Lt', 'arg1', 'arg2')]
    if not okr and not txt:
        # the same order spelled a.partial_cmp(&b).unwrap_or(Equal): no answer (a NaN) counts as Equal, as in the if-chain
        pc = [t for _, t in g.calls() if (callee_of(t) or '').endswith('PartialOrd for f64>::partial_cmp')]
        uo = [t for _, t in g.calls() if (callee_of(t) or '').endswith('::unwrap_or')]
        if len(pc) == 1 and len(uo) == 1:
            a0, a1 = expr_str(g.expr_of_operand(pc[0]['args'][0]), -6), expr_str(g.expr_of_operand(pc[0]['args'][1]), -6)
            dflt = repr(g.expr_of_operand(uo[0]['args'][1]))
            okr = 'arg1' in a0 and 'arg2' in a1 and 'Equal' in dflt
    rep.add('C09.R4', 'C09.R4:compare_reals:a<b,a>b', okr, 'Less iff a < b, Greater iff a > b, else Equal' if okr else 'compare_reals tests %s' % txt, g.name, g.j['span'])


DIV_FAMILY = ('checked_div', 'wrapping_div', 'wrapping_rem', 'checked_rem', 'overflowing_div', 'overflowing_rem', 'div_euclid', 'rem_euclid')


def check_zero_tests(rep, fx):
    n = 0
    for fn in sorted(fx.fns):
        if not fn.startswith('arith::'):
            continue
        f = fx.fns[fn]
        dom = f.dominators()
        sites = []
        for bb, t in f.calls():
            c = callee_of(t) or ''
            if 'impl i128' in c and c.split('::')[-1] in DIV_FAMILY:
                sites.append((bb, 'int', c.split('::')[-1], f.expr_of_operand(t['args'][1]), t.get('at')))
        for bb in f.reachable_blocks():
            for st in f.blocks[bb]['stmts']:
                if st['k'] == 'assign' and st['rv']['k'] == 'bin' and st['rv']['op'] in ('Div', 'Rem'):
                    pa = op_place(st['rv']['b'])
                    ty = f.ty(pa['t']) if pa else '?'
                    if ty in ('i128', 'f64'):
                        if st['rv']['op'] == 'Rem' and ty == 'f64':
                            continue   # the statement asks for a division error only for integer remainder
                        sites.append((bb, 'int' if ty == 'i128' else 'real', st['rv']['op'], f.expr_of_operand(st['rv']['b']), st.get('at')))
        for (sb, kind, opn, divisor, at) in sites:
            dv = unwrap_value(divisor)
            while isinstance(dv, tuple) and dv[0] == 'cast':
                dv = unwrap_value(dv[2])
            if isinstance(dv, tuple) and dv[0] == 'const' and dv[1].get('v') not in (None, 0):
                continue   # non-zero constant divisor
            n += 1
            dtxt = expr_str(unwrap_value(divisor), -10)
            ok = False
            why = 'no `divisor == 0` branch dominates the %s' % opn
            for bb in f.reachable_blocks():
                br = bool_branch(f, bb)
                if br is None:
                    continue
                e, tbb, fbb = br
                c = cmp_of(e)
                if c is None:
                    continue
                op, a, b, neg = c
                if op != 'Eq' or neg:
                    continue
                za = _is_zero_const(a) or _is_zero_const(b)
                other = b if _is_zero_const(a) else a
                same = expr_str(unwrap_value(other), -10) == dtxt
                if za and same and fbb in dom.get(sb, ()):
                    # true side constructs DivisionByZero
                    dz = False
                    for b2, d in dom.items():
                        if d is not None and tbb in d:
                            for st in f.blocks[b2]['stmts']:
                                if st['k'] == 'assign' and st['rv']['k'] == 'agg' and st['rv'].get('variant') == 'DivisionByZero':
                                    dz = True
                    if dz:
                        ok = True
                        why = '%s is reached only when divisor == 0 is false; the true side returns DivisionByZero' % opn
            rep.add('C09.R2', 'C09.R2:%s:%s:%s' % (fn, kind, opn), ok, why if ok else
                    '%s in %s (%s divisor %s): %s' % (opn, short(fn), kind, dtxt[:40], why), fn, at)
    rep.floor('C09.R2 division-family sites', n, 3)


def _is_zero_const(e):
    e = unwrap_value(e)
    if isinstance(e, tuple) and e[0] == 'const':
        c = e[1]
        if c.get('v') == 0:
            return True
        t = c.get('txt', '')
        return t.replace('_f64', '').strip() in ('0', '0.0', '0E0', '0e0', '+0.0', '0f64')
    return False


def check_type_errors(rep, fx):
    n = 0
    for fn in sorted(fx.fns):
        if not fn.startswith('arith::'):
            continue
        f = fx.fns[fn]
        for bb, t in f.calls():
            c = callee_of(t)
            if c == 'arith::num_type_error':
                n += 1
                e = f.expr_of_operand(t['args'][0])
                src = [x[1] for x in expr_walk(e) if isinstance(x, tuple) and x[0] == 'call' and x[1].startswith('state::State::')]
                ok = bool(src) and all(s_ == 'state::State::pop_data' for s_ in src)
                rep.add('C09.R3', 'C09.R3:%s:num_type_error' % fn, ok,
                        'the reported value is the operand popped by this word' if ok else
                        '%s reports %s in its type error: not the operand it popped (a later stack access; with an empty stack this is a '
                        'stack underflow instead of a type error)' % (short(fn), [short(s_) for s_ in src] or expr_str(e)[:50]), fn, t.get('at'))
        for bb in f.reachable_blocks():
            for st in f.blocks[bb]['stmts']:
                if st['k'] == 'assign' and st['rv']['k'] == 'agg' and st['rv'].get('variant') == 'TypeErrorMsg' and fn != 'arith::num_type_error':
                    n += 1
                    names = st['rv'].get('fnames', [])
                    vi = names.index('val') if 'val' in names else 0
                    e = f.expr_of_operand(st['rv']['fields'][vi])
                    src = [x[1] for x in expr_walk(e) if isinstance(x, tuple) and x[0] == 'call' and x[1].startswith('state::State::')]
                    ok = bool(src) and all(s_ == 'state::State::pop_data' for s_ in src)
                    rep.add('C09.R3', 'C09.R3:%s:TypeErrorMsg' % fn, ok, 'val is the popped operand' if ok else
                            'TypeErrorMsg.val comes from %s' % ([short(s_) for s_ in src] or expr_str(e)[:50]), fn, st.get('at'))
        # typed accessors are applied to popped values (their own error carries self)
        for bb, t in f.calls():
            c = callee_of(t) or ''
            if c in ('cell::Cell::to_xint', 'cell::Cell::to_real', 'cell::Cell::to_bool'):
                e = f.expr_of_operand(t['args'][0])
                src = [x[1] for x in expr_walk(e) if isinstance(x, tuple) and x[0] == 'call' and x[1].startswith('state::State::')]
                ok = bool(src) and all(s_ == 'state::State::pop_data' for s_ in src)
                rep.add('C09.R3', 'C09.R3:%s:%s-on-popped' % (fn, c.split('::')[-1]), ok,
                        'typed accessor applied to a popped operand' if ok else
                        '%s applies %s to %s' % (short(fn), short(c), [short(s_) for s_ in src]), fn, t.get('at'), nontrivial=False)
    rep.floor('C09.R3 type-error constructions', n, 5)
