"""C08 — no source text, input or API call sequence can crash the interpreter.

Every panic-capable site reachable from the API is enumerated from the MIR of
the overflow-checked build and must be discharged by a stated rule, by a
reviewed table entry whose required guard is re-checked on every run, or be a
listed finding."""
import os
import re
from ..core import norm_refs, norm_arith
from ..core import (callee_of, expr_walk, expr_str, short, op_place, runtime_targets, immediate_targets, MissingAnchor,
                    unwrap_value, const_str)
from ..pathq import edge_guards, _reach_without_edge
from ..pathq import bool_branch, cmp_of
from ..zone import Zone, lin, atom, strip, BITS, UNSIGNED, INF
from .. import framework as fw, inline

EXPLANATION = (
    "Panic-freedom is about which constructs are reachable, so it is decided up to the soundness of the discharge rules. Scope: "
    "every function reachable (call graph + decoded word registry) from the pub API of the library (State/Lex/Bitstr/Cell "
    "methods, Display/Debug of errors and locations) and from every dictionary word; the REPL binary front-end and the C FFI are "
    "outside the property's call list. Sites: (1) every MIR Assert terminator of the overflow-checked build (Overflow(Add/Sub/"
    "Mul/Shl/Shr), OverflowNeg, DivisionByZero, RemainderByZero, BoundsCheck); (2) every call to a std function that panics on a "
    "value-dependent precondition (unwrap/expect, Index/IndexMut and range slicing of Vec/slice/str/ArcStr/rpds Vector, "
    "slice::swap, Vec::remove/swap_remove/insert, str::split_at, from_str_radix, char::from_digit, wrapping_rem/div by zero, abs/"
    "pow, RefCell::borrow*, sort, chunks); (3) explicit panic!/unreachable!/assert!. Discharge: D-CONST (constant operands), "
    "D-ZONE (difference-bound domain over MIR values fed by dominating branch conditions and defining statements such as min/%/&/"
    "casts; Bellman-Ford, no solver), D-TYPE (shift amount / value bounded by its type or by a %8-style definition), D-LEN "
    "(sums/products of buffer lengths and positions cannot overflow usize under the property's modest-allocation proviso, unless "
    "an operand is user-controlled), D-REVIEWED (a table entry keyed by function+site signature with a one-line invariant "
    "argument and, where possible, a required guard pattern that is re-checked in the MIR on every run). T-TAINT: an operand "
    "derived from Cell::to_usize/to_isize/to_xint/to_real or from a tag-supplied radix is user-controlled and is never "
    "discharged by D-LEN. Undischarged sites are violations (or listed findings, by exact key).")
RULE_TEXT = ("instances = all panic-capable sites in scope, keyed function:kind:operand-signature; each is discharged by "
             "the named rule or reported; non-trivial = needed D-ZONE / D-REVIEWED with a re-checked guard (not D-CONST)")
ASSUMPTIONS = [
    "rustc MIR for the dev profile (overflow checks on) shows every arithmetic assert; release differs only by dropping Overflow asserts (thorough tier re-examines them)",
    "allocations are modest (the property's proviso): every buffer length / bit position is < 2^56",
    "dependencies (std, rpds, arcstr, base32/64, z85, memchr, getrandom) do not panic when their documented preconditions hold",
    "stack exhaustion by deeply nested vectors (recursive formatting / concat) is a resource, not a site (not decided)",
    "getrandom failure is an environment fault (random / random-bits)",
]

TABLE = os.path.join(fw.VERIF, 'tables', 'c08_reviewed.tsv')

TAINT_SOURCES = ('cell::Cell::to_usize', 'cell::Cell::to_isize', 'cell::Cell::to_xint', 'cell::Cell::to_real',
                 'fmt_flags::FmtFlags::base', 'fmt_flags::FmtFlags::from_raw')

# std functions with a value-dependent panic precondition: callee -> (kind, description)
PRECOND = {
    'core::option::Option::<T>::unwrap': 'unwrap', 'core::option::Option::<T>::expect': 'unwrap',
    'core::result::Result::<T, E>::unwrap': 'unwrap', 'core::result::Result::<T, E>::expect': 'unwrap',
    '<alloc::vec::Vec<T, A> as core::ops::index::Index<I>>::index': 'index', '<alloc::vec::Vec<T, A> as core::ops::index::IndexMut<I>>::index_mut': 'index',
    'core::slice::index::<impl core::ops::index::Index<I> for [T]>::index': 'index',
    'core::slice::index::<impl core::ops::index::IndexMut<I> for [T]>::index_mut': 'index',
    'core::str::traits::<impl core::ops::index::Index<I> for str>::index': 'str-index',
    '<arcstr::arc_str::ArcStr as core::ops::index::Index<core::ops::range::RangeFrom<usize>>>::index': 'str-index',
    '<arcstr::arc_str::ArcStr as core::ops::index::Index<core::ops::range::Range<usize>>>::index': 'str-index',
    '<arcstr::arc_str::ArcStr as core::ops::index::Index<core::ops::range::RangeTo<usize>>>::index': 'str-index',
    '<arcstr::arc_str::ArcStr as core::ops::index::Index<core::ops::range::RangeInclusive<usize>>>::index': 'str-index',
    '<arcstr::arc_str::ArcStr as core::ops::index::Index<core::ops::range::RangeToInclusive<usize>>>::index': 'str-index',
    '<arcstr::substr::Substr as core::ops::index::Index<core::ops::range::Range<usize>>>::index': 'str-index',
    '<arcstr::substr::Substr as core::ops::index::Index<core::ops::range::RangeFrom<usize>>>::index': 'str-index',
    '<arcstr::substr::Substr as core::ops::index::Index<core::ops::range::RangeTo<usize>>>::index': 'str-index',
    'core::slice::<impl [T]>::windows': 'chunks', 'core::slice::<impl [T]>::chunks_exact': 'chunks', 'core::slice::<impl [T]>::chunks_mut': 'chunks',
    'core::iter::traits::iterator::Iterator::step_by': 'chunks',
    'core::slice::<impl [T]>::rchunks': 'chunks', 'core::slice::<impl [T]>::rchunks_exact': 'chunks', 'core::slice::<impl [T]>::rchunks_mut': 'chunks',
    'core::slice::<impl [T]>::rotate_left': 'range', 'core::slice::<impl [T]>::rotate_right': 'range',
    'alloc::string::String::insert': 'str-split', 'alloc::string::String::insert_str': 'str-split', 'alloc::string::String::remove': 'str-split',
    'alloc::string::String::truncate': 'str-split', 'alloc::string::String::split_off': 'str-split', 'alloc::string::String::drain': 'str-split',
    'alloc::string::String::replace_range': 'str-split',
    'core::slice::<impl [T]>::split_at_mut': 'range', 'core::slice::<impl [T]>::copy_within': 'range',
    'core::slice::<impl [T]>::clone_from_slice': 'len-eq', 'core::slice::<impl [T]>::swap_with_slice': 'len-eq',
    'core::num::<impl usize>::pow': 'overflow-fn', 'core::num::<impl u32>::pow': 'overflow-fn', 'core::num::<impl u64>::pow': 'overflow-fn',
    'core::num::<impl i64>::abs': 'overflow-fn', 'core::num::<impl i32>::abs': 'overflow-fn',
    'core::num::<impl usize>::from_str_radix': 'radix', 'core::num::<impl u32>::from_str_radix': 'radix', 'core::num::<impl u64>::from_str_radix': 'radix',
    'core::num::<impl u8>::from_str_radix': 'radix', 'core::num::<impl i64>::from_str_radix': 'radix',
    'core::char::methods::<impl char>::is_digit': 'radix',
    'core::num::<impl i128>::rem_euclid': 'div0', 'core::num::<impl i128>::div_euclid': 'div0',
    'core::num::<impl usize>::next_power_of_two': 'overflow-fn', 'core::num::<impl usize>::div_ceil': 'div0',
    'core::num::<impl usize>::next_multiple_of': 'div0', 'core::num::<impl usize>::ilog2': 'overflow-fn', 'core::num::<impl u128>::ilog2': 'overflow-fn',
    'core::cell::RefCell::<T>::replace': 'borrow', 'core::cell::RefCell::<T>::swap': 'borrow',
    'core::time::Duration::from_secs_f64': 'overflow-fn', 'std::time::Instant::duration_since': 'overflow-fn',
    "core::fmt::rt::Argument::<'_>::from_usize": 'fmt-width',      # a run-time width / precision above u16::MAX panics while formatting
    'z85::decode': 'z85-text',      # z85 3.0 panics (256u32.pow(4 - diff), diff > 4) on a tail chunk that starts with more than three '#'
    'arcstr::arc_str::ArcStr::substr': 'str-index', 'arcstr::substr::Substr::substr': 'str-index',
    '<rpds::vector::Vector<T, P> as core::ops::index::Index<usize>>::index': 'index',
    '<rpds::vector::Vector<T, P> as core::ops::index::IndexMut<usize>>::index_mut': 'index',
    'core::slice::<impl [T]>::swap': 'swap', 'alloc::vec::Vec::<T, A>::remove': 'remove', 'alloc::vec::Vec::<T, A>::swap_remove': 'remove',
    'alloc::vec::Vec::<T, A>::insert': 'insert', 'alloc::vec::Vec::<T, A>::drain': 'range', 'alloc::vec::Vec::<T, A>::split_off': 'range',
    'core::str::<impl str>::split_at': 'str-split', 'core::slice::<impl [T]>::split_at': 'range',
    'core::num::<impl i128>::from_str_radix': 'radix', 'core::char::methods::<impl char>::from_digit': 'radix',
    'core::char::methods::<impl char>::to_digit': 'radix',
    'core::num::<impl i128>::wrapping_rem': 'div0', 'core::num::<impl i128>::wrapping_div': 'div0',
    'core::num::<impl i128>::abs': 'overflow-fn', 'core::num::<impl isize>::abs': 'overflow-fn', 'core::num::<impl i128>::pow': 'overflow-fn',
    'core::cell::RefCell::<T>::borrow': 'borrow', 'core::cell::RefCell::<T>::borrow_mut': 'borrow',
    'alloc::slice::<impl [T]>::sort': 'sort', 'core::slice::<impl [T]>::chunks': 'chunks',
    'core::slice::<impl [T]>::copy_from_slice': 'len-eq',
}
PANIC_CALLS = ('core::panicking::', 'std::rt::begin_panic', 'std::panicking::begin_panic', 'core::option::unwrap_failed', 'core::result::unwrap_failed',
               'core::option::expect_failed', 'core::slice::index::slice_', 'core::str::slice_error_fail')

LEN_LIKE_CALLS = ('::len', 'bitstr::Bitstr::start', 'bitstr::Bitstr::end', 'state::State::code_origin', 'state::State::ip',
                  'state::State::data_depth', 'bitstr::upper_bound_index', 'core::str::<impl str>::len', '::size',
                  'core::char::methods::<impl char>::len_utf8', 'core::cmp::Ord::min', 'core::cmp::Ord::max', 'core::cmp::min', 'core::cmp::max')
LEN_LIKE_FIELDS = ('range', 'start', 'end', 'pos', 'start_pos', 'len', 'ds_len', 'cs_len', 'rs_len', 'fs_len', 'ls_len', 'ss_ptr', 'di_len', 'ip',
                   'insn_meter', 'width', 'height')


def scope(fx):
    roots = set(runtime_targets(fx)) | set(immediate_targets(fx))
    for n, f in fx.fns.items():
        if n.startswith(('repl::', 'c_api::')) or 'repl::' in n:
            continue
        if f.j['vis'] == 'pub':
            roots.add(n)
        if n.startswith('<') and ('fmt::' in n or 'Clone' in n or 'cmp::' in n or 'Iterator' in n or 'From<' in n or 'Default' in n):
            roots.add(n)
    extra = {'state::State::fetch_and_run': runtime_targets(fx), 'state::State::run_immediate': immediate_targets(fx)}
    reach = fx.reachable_from(roots, extra_edges=extra)
    return {r for r in reach if r in fx.fns and not r.startswith(('repl::', 'c_api::')) and 'repl::' not in r}


# ---------------------------------------------------------------- facts for a site
def guard_facts(f, bb):
    """[(op, a_expr, b_expr)] of comparisons that hold on every path to block bb: bool branches one of whose edges
    every path to bb takes (edge dominance: nested ifs and early-return guards alike), and arms of a `match a.cmp(&b)`"""
    out = []
    for (b2, e, side) in edge_guards(f, bb):
        for (op, a, b) in conjuncts(f, e, side):
            out.append((op, a, b))
    out += ordering_facts(f, bb)
    # a >= b together with a != b is a > b
    ges = [(a, b) for (op, a, b) in out if op == 'Ge'] + [(b, a) for (op, a, b) in out if op == 'Le']
    nes = [(expr_str(strip(a), -10), expr_str(strip(b), -10)) for (op, a, b) in out if op == 'Ne']
    for a, b in ges:
        sa, sb = expr_str(strip(a), -10), expr_str(strip(b), -10)
        if (sa, sb) in nes or (sb, sa) in nes:
            out.append(('Gt', a, b))
    return out


ORD_FACT = {frozenset(['Less']): 'Lt', frozenset(['Equal']): 'Eq', frozenset(['Greater']): 'Gt',
            frozenset(['Less', 'Equal']): 'Le', frozenset(['Equal', 'Greater']): 'Ge', frozenset(['Less', 'Greater']): 'Ne'}


def ordering_facts(f, bb):
    """facts from `match a.cmp(&b) { Less => .., Equal => .., Greater => .. }` arms every path to bb goes through"""
    out = []
    for b2 in f.reachable_blocks():
        t = f.blocks[b2]['term']
        if t['k'] != 'switch':
            continue
        e = f.expr_of_operand(t['discr'])
        if not (isinstance(e, tuple) and e[0] == 'discr' and e[2] == 'core::cmp::Ordering'):
            continue
        c = strip(e[1])
        if not (isinstance(c, tuple) and c[0] == 'call' and c[1].endswith('::cmp') and len(c[2]) == 2 and ('Ord' in c[1])):
            continue
        variants = None
        for b3 in f.reachable_blocks():
            for st in f.blocks[b3]['stmts']:
                if st['k'] == 'assign' and st['rv']['k'] == 'discr' and st['rv'].get('adt') == 'core::cmp::Ordering':
                    variants = dict(st['rv']['variants'])
        if not variants:
            continue
        by_target = {}
        named = set()
        for v, tgt in t['targets']:
            n = variants.get(v)
            if n is None:
                by_target = None
                break
            by_target.setdefault(tgt, set()).add(n)
            named.add(n)
        if by_target is None:
            continue
        rest = {'Less', 'Equal', 'Greater'} - named
        if rest:
            by_target.setdefault(t['otherwise'], set()).update(rest)
        for tgt, names in by_target.items():
            # every path to bb takes the edge b2 -> tgt and no other edge of this switch
            others = [x for x in by_target if x != tgt]
            if _reach_without_edge(f, 0, bb, b2, tgt):
                continue
            if not all(_reach_without_edge(f, 0, bb, b2, o) for o in others):
                continue
            op = ORD_FACT.get(frozenset(names))
            if op:
                out.append((op, c[2][0], c[2][1]))
    return out


def conjuncts(f, e, truth):
    """comparison facts implied by boolean expr e having the given truth value"""
    neg = {'Ge': 'Lt', 'Gt': 'Le', 'Le': 'Gt', 'Lt': 'Ge', 'Eq': 'Ne', 'Ne': 'Eq'}
    e = strip(e)
    while isinstance(e, tuple) and e[0] == 'un' and e[1] == 'Not' and cmp_of(e) is None:
        e = strip(e[2])
        truth = not truth
    c = cmp_of(e)
    if c is not None:
        op, a, b, n = c
        if n:
            truth = not truth
        if not truth:
            op = neg[op]
        return [(op, a, b)]
    if isinstance(e, tuple) and e[0] == 'phi':
        # `a && b` lowers to a phi of (const false | b): only usable when true
        if truth:
            outs = []
            alts = [x for x in e[1] if not (isinstance(x, tuple) and x[0] == 'const')]
            if len(alts) == 1:
                outs += conjuncts(f, alts[0], True)
            return outs
    if isinstance(e, tuple) and e[0] == 'call':
        n = e[1]
        if n.endswith('::is_empty') and e[2]:
            # is_empty(range) false => start < end ; Vec::is_empty false => len >= 1
            return [('IsEmpty', e[2][0], truth)]
        if n.endswith('RangeInclusive::<Idx>::contains') and len(e[2]) == 2 and truth:
            for x in expr_walk(e[2][0]):
                if isinstance(x, tuple) and x[0] == 'const' and x[1].get('pm'):
                    for m in x[1]['pm']:
                        mm = re.search(r'RangeInclusive::<\w+>::new\(const (\d+)_\w+, const (\d+)_\w+\)', m)
                        if mm:
                            lo = ('const', {'v': int(mm.group(1)), 't': 0})
                            hi = ('const', {'v': int(mm.group(2)), 't': 0})
                            return [('Ge', e[2][1], lo), ('Le', e[2][1], hi)]
            rng = [x for x in expr_walk(e[2][0]) if isinstance(x, tuple) and x[0] == 'call' and x[1].endswith('RangeInclusive::<Idx>::new')]
            if rng and len(rng[0][2]) == 2:
                lo, hi = rng[0][2]
                return [('Ge', e[2][1], lo), ('Le', e[2][1], hi)]
        if n == 'bitstr::Bitstr::is_u8_slice' or n == 'bitstr::Bitstr::is_bytestr':
            return [('Call:' + n, e[2][0] if e[2] else None, truth)]
    return []


def _gt(e):
    """guard operand text: reborrow chains and checked-arithmetic spelling normalised, as in site keys"""
    return expr_str(strip(norm_arith(norm_refs(e))), -10)


_LEN_MARK = re.compile(r'(^state::State::(data_depth|code_origin)\(|\.ctx\.(ds_len|cs_len|rs_len|fs_len|ls_len|ss_ptr|di_len|rl_len|so_len)$)')
STD_LEN = {'alloc::vec::Vec::<T, A>::len', 'core::slice::<impl [T]>::len', 'core::str::<impl str>::len', 'alloc::string::String::len'}


def build_zone(f, bb, operand_exprs):
    z = Zone()
    facts = guard_facts(f, bb)
    txt = []
    for (op, a, b) in facts:
        if op in ('IsEmpty',) or str(op).startswith('Call:'):
            txt.append('%s(%s)=%s' % (op, _gt(a)[:50] if a is not None else '', b))
            continue
        la, lb = lin(a), lin(b)
        txt.append('%s(%s, %s)' % (op, _gt(a)[:60], _gt(b)[:60]))
        if op == 'Ge':
            z.add_lin_ge(la, lb, 0)
        elif op == 'Gt':
            z.add_lin_ge(la, lb, 1)
        elif op == 'Le':
            z.add_lin_ge(lb, la, 0)
        elif op == 'Lt':
            z.add_lin_ge(lb, la, 1)
        elif op == 'Eq':
            z.add_lin_ge(la, lb, 0)
            z.add_lin_ge(lb, la, 0)
    # definitional facts for atoms in the operands and in the guards
    seen = set()
    todo = list(operand_exprs) + [x for (op, a, b) in facts for x in (a, b) if isinstance(x, tuple)]
    for e in todo:
        for x in expr_walk(e):
            if not isinstance(x, tuple):
                continue
            x = strip(x)
            k = atom(x)
            if k in seen:
                continue
            seen.add(k)
            def_facts(f, z, x, k)
            if _atom_nonneg(k):
                z.nonneg(k)
    return z, txt


_NONNEG_PAT = re.compile(r'(::len\(|Bitstr::start\(|Bitstr::end\(|code_origin\(|upper_bound_index\(|data_depth\(|State::ip\(|::size\(|\.(%s)$|\.(%s)\b)' %
                         ('|'.join(LEN_LIKE_FIELDS), '|'.join(LEN_LIKE_FIELDS)))


def _atom_nonneg(k):
    if k.startswith(('Sub(', 'Neg(', 'cast(')):
        return False
    return bool(_NONNEG_PAT.search(k)) and 'isize' not in k


def _closure_counter(e):
    """inside a closure: `*captured` (a counter the closure steps once per call) or a plain field of the item it is given (`|(i, _)| i + 1`
    after enumerate) - never a value computed from user integers (those are tainted and do not come here)"""
    e = strip(e)
    t = expr_str(e, -8)
    return bool(re.fullmatch(r'(\(\*)?\(\*arg1\)\.\d+\)?', t) or re.fullmatch(r'\(?\*?arg[2-9]\)?\.\d+', t))


def is_counter(e):
    """phi(const | self + const): a loop counter that advances by a constant per iteration"""
    e = strip(e)
    if not (isinstance(e, tuple) and e[0] == 'phi'):
        return False
    for x in e[1]:
        x = strip(x)
        if isinstance(x, tuple) and x[0] == 'const':
            continue
        if isinstance(x, tuple) and x[0] in ('call',) and any(x[1].endswith(s_) for s_ in ('Bitstr::start', '::len')):
            continue
        if isinstance(x, tuple) and x[0] == 'proj' and re.search(r'(start|end|pos|len)$', expr_str(x, -4)):
            continue
        if isinstance(x, tuple) and x[0] == 'arg':
            continue
        if isinstance(x, tuple) and x[0] == 'bin' and x[1] in ('Add', 'AddWithOverflow', 'Sub', 'SubWithOverflow'):
            a, b = strip(x[2]), strip(x[3])
            if isinstance(a, tuple) and a[0] == 'cycle':
                continue
        return False
    return True


def _counted_by_helper(fx, e):
    """e is the result of a crate-local function whose return value is a loop counter advanced by <= 64 per iteration"""
    e = strip(e)
    if not (isinstance(e, tuple) and e[0] == 'call' and e[1] in fx.fns):
        return False
    g = fx.fns[e[1]]
    if g.local_ty(0) not in ('usize', 'u32', 'u64'):
        return False
    r = strip(g.expr_of_local(0))
    if not is_counter(r):
        return False
    for x in r[1]:
        x = strip(x)
        if isinstance(x, tuple) and x[0] == 'bin':
            inc = x[3] if isinstance(strip(x[2]), tuple) and strip(x[2])[0] == 'cycle' else x[2]
            if x[1].startswith('Sub') or upper_by_type(g, inc) > 64:
                return False
        elif not (isinstance(x, tuple) and x[0] == 'const'):
            return False
    return True


def def_facts(f, z, x, k):
    tag = x[0]
    if tag == 'call' and x[1] in STD_LEN:
        # an allocation is at most isize::MAX bytes (a language guarantee of Vec / slice / str): so is the element count
        z.add(k, '0', 0)
        z.add('0', k, -((1 << 63) - 1))
    if tag == 'proj' and tuple(x[2])[:3] == ('as Some', '0', '0') and isinstance(strip(x[1]), tuple) and strip(x[1])[0] == 'call' and \
            strip(x[1])[1].endswith('Iterator>::next') and 'enumerate' in expr_str(strip(x[1]), -40).lower():
        # the index an enumerate() over something in memory hands out is the index of an element that exists: below isize::MAX
        z.add(k, '0', 0)
        z.add('0', k, -((1 << 63) - 2))
    if tag == 'proj' and tuple(x[2]) == ('as Some', '0') and isinstance(strip(x[1]), tuple) and strip(x[1])[0] == 'call' and \
            strip(x[1])[1].endswith('::checked_sub') and ('usize' in strip(x[1])[1] or 'u64' in strip(x[1])[1] or 'u32' in strip(x[1])[1]):
        # the Some payload of a.checked_sub(b) is a - b with b >= 0: at most a
        c_ = strip(x[1])
        z.add(k, '0', 0)
        la = lin(c_[2][0])
        if la and len(la[0]) == 1 and list(la[0].values())[0] == 1 and la[1] == 0:
            z.add(list(la[0].keys())[0], k, 0)
            # make sure the minuend's own definitional bounds are known
            ka = list(la[0].keys())[0]
            if _LEN_MARK.search(ka):
                z.add(ka, '0', 0)
                z.add('0', ka, -((1 << 63) - 1))
    if tag == 'call' and x[1].endswith('::checked_sub') and len(x[2]) == 2 and ('usize' in x[1] or 'u64' in x[1] or 'u32' in x[1]):
        # the Some payload of a.checked_sub(b) is a - b with b >= 0: at most a
        z.add(k, '0', 0)
        la = lin(x[2][0])
        if la and len(la[0]) == 1 and list(la[0].values())[0] == 1 and la[1] == 0:
            z.add(list(la[0].keys())[0], k, 0)
    if _LEN_MARK.search(k) and not k.startswith(('Sub(', 'Add(', 'Neg(', 'cast(')):
        # a mark of a length (ctx.ds_len, code_origin(), data_depth()): taken from some Vec::len() - I-FLOOR / I-STACK - so it
        # shares the bound of a length
        z.add(k, '0', 0)
        z.add('0', k, -((1 << 63) - 1))
    if tag == 'bin':
        op = x[1]
        a, b = strip(x[2]), strip(x[3])
        cb = b[1].get('v') if isinstance(b, tuple) and b[0] == 'const' else None
        if op == 'Rem' and cb:
            z.add(k, '0', 0)
            z.add('0', k, -(cb - 1))
        elif op == 'BitAnd' and cb is not None:
            z.add(k, '0', 0)
            z.add('0', k, -cb)
        elif op == 'Div' and cb:
            z.add(k, '0', 0)
            la = lin(a)
            if la and len(la[0]) == 1 and list(la[0].values())[0] == 1 and la[1] == 0:
                z.add(list(la[0].keys())[0], k, 0)     # x/c <= x
        elif op == 'Shr':
            z.add(k, '0', 0)
    elif tag == 'call':
        n = x[1]
        if n in ('core::cmp::Ord::min', 'core::cmp::min') and len(x[2]) == 2:
            for arg in x[2]:
                la = lin(arg)
                z.add_lin_ge(la, ({k: 1}, 0), 0)
        elif n in ('core::cmp::Ord::max', 'core::cmp::max') and len(x[2]) == 2:
            for arg in x[2]:
                la = lin(arg)
                z.add_lin_ge(({k: 1}, 0), la, 0)
        elif (n == 'core::cmp::Ord::clamp' or n.endswith('>::clamp')) and len(x[2]) == 3:
            # x.clamp(lo, hi) = x.max(lo).min(hi): lo <= k <= hi
            z.add_lin_ge(({k: 1}, 0), lin(x[2][1]), 0)
            z.add_lin_ge(lin(x[2][2]), ({k: 1}, 0), 0)
        elif n.endswith('len_utf8'):
            z.add(k, '0', 1)
            z.add('0', k, -4)
        elif n.endswith('<impl str>::len') and x[2]:
            # a trimmed / stripped string is a sub-slice of the original: it is not longer
            inner = strip(unwrap_value(strip(x[2][0])))
            if isinstance(inner, tuple) and inner[0] == 'call' and re.search(r'<impl str>::(trim\w*|strip_\w+)$', inner[1]) and inner[2]:
                outer_len = ('call', n, (inner[2][0],), x[3])
                z.add(atom(outer_len), k, 0)
        if any(n.endswith(s_) or n == s_ for s_ in LEN_LIKE_CALLS):
            z.nonneg(k)
    elif tag == 'cast':
        pass
    # every atom of unsigned type is >= 0: we cannot see the type here; callers add nonneg for operands


def type_of_operand(f, o):
    p = op_place(o)
    if p is not None:
        return f.ty(p['t'])
    c = o.get('c')
    return f.ty(c['t']) if c else '?'


def upper_by_type(f, e, depth=0):
    """upper bound of an expression from casts / masks / types (INF if unknown)"""
    e = strip(e)
    if not isinstance(e, tuple) or depth > 10:
        return INF
    if e[0] == 'const':
        v = e[1].get('v')
        return v if isinstance(v, int) and v >= 0 else INF
    if e[0] == 'arg' and isinstance(e[1], int):
        ta = f.local_ty(e[1]) if e[1] < len(f.locals) else ''
        return (1 << BITS[ta]) - 1 if ta in UNSIGNED else INF
    if e[0] == 'cast':
        src = upper_by_type(f, e[2], depth + 1)
        inner = unwrap_value(strip(e[2]))
        if src == INF and isinstance(inner, tuple) and inner[0] == 'call' and inner[1] in ('cell::Cell::to_usize',):
            src = (1 << 64) - 1
        to = f.ty(e[3]) if isinstance(e[3], int) else ''
        tb = (1 << BITS[to]) - 1 if to in UNSIGNED else INF
        return min(src, tb)
    if e[0] == 'bin':
        op = e[1]
        a, b = upper_by_type(f, e[2], depth + 1), upper_by_type(f, e[3], depth + 1)
        if op == 'Rem' and b != INF and b > 0:
            return b - 1
        if op == 'BitAnd':
            return min(a, b)
        if op in ('BitOr', 'BitXor') and a != INF and b != INF:
            m = max(a, b)
            return (1 << m.bit_length()) - 1
        if op in ('Add', 'AddWithOverflow') and a != INF and b != INF:
            return a + b
        if op in ('Sub', 'SubWithOverflow'):
            lb = lower_by_type(f, e[3])
            return a - lb if a != INF and lb <= a else a
        if op == 'Div':
            if b not in (INF, 0):
                return (a if a != INF else (1 << 64) - 1) // b
            return a
        if op == 'Shr':
            return a
        if op == 'Mul' and a != INF and b != INF:
            return a * b
        return INF
    if e[0] == 'call' and e[1] == 'fmt_flags::FmtFlags::into_raw':
        b = fmtflags_bound(_FXG[0])
        if b is not None:
            return b
    if e[0] == 'call':
        n = e[1]
        if n in ('core::cmp::Ord::min', 'core::cmp::min') and len(e[2]) == 2:
            return min(upper_by_type(f, e[2][0], depth + 1), upper_by_type(f, e[2][1], depth + 1))
        if n.endswith('len_utf8'):
            return 4
        if n.endswith('::count_ones'):
            return 128
    if e[0] == 'proj' and tuple(e[2]) == ('as Some', '0') and isinstance(e[1], tuple) and e[1][0] == 'call' and e[1][1].endswith('::next') and e[1][2]:
        # item of an iterator over a constant integer range, possibly reversed: (a..b), (a..b).rev()
        hi = _const_range_hi(e[1][2][0])
        if hi is not None:
            return hi - 1
    if e[0] == 'proj' and tuple(e[2])[:2] == ('as Some', '0') and len(e[2]) == 3 and e[2][2] in ('0', '1') and isinstance(e[1], tuple) \
            and e[1][0] == 'call' and e[1][1] == "<bitstr::Iter8<'a> as core::iter::traits::iterator::Iterator>::next":
        return 255 if e[2][2] == '0' else 8         # an iter8 item is (byte value, width <= 8)
    if e[0] == 'proj' and e[2] and e[2][-1] in ('0', '1') and isinstance(e[1], tuple) and e[1][0] == 'call':
        # cut_bits(..) -> (u8, usize<=8) ; iter8 item (u8, u32<=8)
        n = e[1][1]
        if n == 'bitstr::cut_bits':
            return 255 if e[2][-1] == '0' else 8
    if e[0] == 'phi':
        ups = [upper_by_type(f, x, depth + 1) for x in e[1]]
        return max(ups) if ups else INF
    if e[0] == 'proj' and isinstance(e[1], tuple) and e[1][0] == 'arg' and e[1][1] == 2 and tuple(e[2]) in (('0',), ('1',)) \
            and closure_item_of_iter8(_FXG[0], f):
        return 255 if e[2][0] == '0' else 8
    return INF


_FMTFLAGS = {}


def fmtflags_bound(fx):
    """type invariant of fmt_flags::FmtFlags: every construction `FmtFlags(v)` in the crate has v <= B, assuming the field
    of any FmtFlags it reads is <= B (induction over constructions).  Returns the smallest B of the form 2^k - 1 that
    works (k <= 16), or None."""
    if fx is None:
        return None
    if id(fx) in _FMTFLAGS:
        return _FMTFLAGS[id(fx)]
    res = None
    for k in (12, 13, 14, 15, 16):
        B = (1 << k) - 1
        good = True
        n = 0
        for fn, f in fx.fns.items():
            for bb in f.reachable_blocks():
                for st in f.blocks[bb]['stmts']:
                    if st['k'] == 'assign' and st['rv']['k'] == 'agg' and st['rv'].get('adt') == 'fmt_flags::FmtFlags':
                        n += 1
                        v = f.expr_of_operand(st['rv']['fields'][0])
                        if _ub_with_field(f, v, B) > B:
                            good = False
        if good and n:
            res = B
            break
    _FMTFLAGS[id(fx)] = res
    return res


def _ub_with_field(f, e, B, depth=0):
    """upper bound where `.0` of a FmtFlags value counts as <= B"""
    e = strip(e)
    if not isinstance(e, tuple) or depth > 8:
        return INF
    if e[0] == 'proj' and tuple(p for p in e[2] if p != '*') == ('0',):
        base = strip(e[1])
        if isinstance(base, tuple) and base[0] == 'arg' and 'FmtFlags' in f.local_ty(base[1]):
            return B
    if e[0] == 'bin':
        a, b = _ub_with_field(f, e[2], B, depth + 1), _ub_with_field(f, e[3], B, depth + 1)
        if e[1] == 'BitAnd':
            return min(a, b)
        if e[1] in ('BitOr', 'BitXor') and a != INF and b != INF:
            return (1 << max(a, b).bit_length()) - 1
        return upper_by_type(f, e)
    if e[0] == 'un' and e[1] == 'Not':
        return INF
    if e[0] == 'phi':
        return max([_ub_with_field(f, x, B, depth + 1) for x in e[1]] or [INF])
    return upper_by_type(f, e)


def lower_by_type(f, e):
    """a lower bound known from what the value is (0 if nothing is known)"""
    e = strip(e)
    if isinstance(e, tuple) and e[0] == 'proj' and isinstance(e[1], tuple) and e[1][0] == 'arg' and e[1][1] == 2 and tuple(e[2]) == ('1',) \
            and closure_item_of_iter8(_FXG[0], f):
        return 1
    if isinstance(e, tuple) and e[0] == 'const' and isinstance(e[1].get('v'), int) and e[1]['v'] >= 0:
        return e[1]['v']
    return 0


RANGE_ADAPTERS = ('<I as core::iter::traits::collect::IntoIterator>::into_iter', 'core::iter::traits::iterator::Iterator::rev')


def _const_range_hi(e):
    """e is (a reference to) `lo..hi` with constant bounds, seen through into_iter()/rev() only: hi, else None"""
    hops = 0
    while isinstance(e, tuple) and hops < 12:
        hops += 1
        if e[0] == 'ref':
            e = e[2]
        elif e[0] == 'proj' and all(p == '*' for p in e[2]):
            e = e[1]
        elif e[0] == 'call' and e[1] in RANGE_ADAPTERS and len(e[2]) == 1:
            e = e[2][0]
        elif e[0] == 'agg' and e[1] == 'core::ops::range::Range' and len(e[3]) == 2:
            lo, hi = e[3]
            if lo[0] == 'const' and hi[0] == 'const' and isinstance(lo[1].get('v'), int) and isinstance(hi[1].get('v'), int) and 0 <= lo[1]['v'] <= hi[1]['v']:
                return hi[1]['v']
            return None
        else:
            return None
    return None


def is_tainted(f, e, tainted_params, depth=0):
    for x in expr_walk(e):
        if isinstance(x, tuple) and x[0] == 'call' and x[1] in TAINT_SOURCES:
            return True
        if isinstance(x, tuple) and x[0] == 'arg' and (f.name, x[1]) in tainted_params:
            return True
    return False


def length_like(f, e):
    """all atoms of e are lengths / positions inside allocated buffers or constants"""
    e = strip(e)
    la = lin(e)
    if la is None:
        return False
    for a in la[0]:
        ok = False
        if any(s_ in a for s_ in ('::len(', 'Bitstr::start(', 'Bitstr::end(', 'code_origin(', 'upper_bound_index(', 'data_depth(', 'len_utf8(', 'State::ip(',
                                  '::size(', 'Bitstr::len(', 'enumerate::Enumerate<I> as')):     # an enumerate() index counts elements held in memory
            ok = True
        if re.search(r'\.(%s)\b' % '|'.join(LEN_LIKE_FIELDS), a):
            ok = True
        if not ok:
            return False
    return True


def site_key(fn, kind, sig):
    return 'C08:%s:%s:%s' % (fn, kind, sig)


def load_table():
    tbl = {}
    if not os.path.exists(TABLE):
        return tbl
    for line in open(TABLE):
        line = line.rstrip('\n')
        if not line or line.startswith('#'):
            continue
        parts = line.split('\t')
        if len(parts) < 3:
            continue
        key, needs, reason = parts[0], parts[1], parts[2]
        tbl[key] = (needs, reason)
    return tbl


def compute_tainted_params(fx, reach):
    """(fn, arg index) pairs that receive user-controlled integers (one inter-procedural pass to fixpoint)"""
    tainted = set()
    changed = True
    rounds = 0
    while changed and rounds < 6:
        changed = False
        rounds += 1
        for fn in reach:
            f = fx.fns[fn]
            for bb, t in f.calls():
                c = callee_of(t)
                if c not in fx.fns:
                    continue
                for i, a in enumerate(t['args']):
                    ty = type_of_operand(f, a)
                    if ty not in ('usize', 'isize', 'i128', 'u32', 'u64', 'i64', 'u128', 'u8'):
                        continue
                    e = f.expr_of_operand(a)
                    if is_tainted(f, e, tainted):
                        k = (c, i + 1)
                        if k not in tainted:
                            tainted.add(k)
                            changed = True
    return tainted


def sig_of(f, exprs):
    # local numbers (loop-carried values print as ('cycle', n)) are compiler artefacts: not part of a key
    # ... and so is the way a value travelled: `let (a, b) = (x, y); a` is x (tuple packing undone by simplify)
    from ..core import simplify as _simp
    s = ','.join(re.sub(r"\('(cycle|undef|unknown)',\d+\)", r'\1', re.sub(r'\s+', '', expr_str(strip(norm_arith(norm_refs(_simp(norm_refs(e))))), -6)))[:48] for e in exprs)
    return s


def enumerate_sites(fx, reach):
    """yield dict(fn, bb, kind, sig, operands(expr list), at, term)"""
    for fn in sorted(reach):
        for s in sites_of(fx.fns[fn]):
            yield s


_REF_ARITH = re.compile(r'^<&?(?:mut )?((?:i|u)(?:8|16|32|64|128|size)) as core::ops::(arith|bit)::\w+(?:<[^>]*>)?>::(add|sub|mul|neg|div|rem|shl|shr|add_assign|sub_assign|mul_assign|div_assign|rem_assign)$')


def sites_of(f, only_blocks=None):
    fn = f.name
    for bb in sorted(f.reachable_blocks()):
        if only_blocks is not None and bb not in only_blocks:
            continue
        blk = f.blocks[bb]
        t = blk['term']
        if t['k'] == 'assert':
            kind = t['kind']
            if kind in ('MisalignedPointerDereference', 'NullPointerDereference'):
                continue
            ops = [f.expr_of_operand(o) for o in t['ops']]
            yield {'fn': fn, 'bb': bb, 'kind': kind, 'ops': ops, 'raw': t['ops'], 'at': t.get('at'), 'term': t, 'exp': t.get('exp'),
                   'cond': f.expr_of_operand(t['cond'])}
        elif t['k'] == 'call':
            c = callee_of(t) or ''
            m = _REF_ARITH.match(c)
            if m:
                # `a + b` where an operand is a reference goes through the std operator impl, which inherits the caller's
                # overflow checks: the same panic as the built-in operator, without an Assert terminator in this body
                op = {'add': 'Add', 'sub': 'Sub', 'mul': 'Mul', 'neg': 'Neg', 'div': 'Div', 'rem': 'Rem', 'shl': 'Shl', 'shr': 'Shr',
                      'add_assign': 'Add', 'sub_assign': 'Sub', 'mul_assign': 'Mul', 'div_assign': 'Div', 'rem_assign': 'Rem'}[m.group(3)]
                ops = [f.expr_of_operand(o) for o in t['args']]
                kind = 'OverflowNeg' if op == 'Neg' else ('DivisionByZero' if op == 'Div' else 'RemainderByZero' if op == 'Rem' else 'Overflow(%s)' % op)
                site = {'fn': fn, 'bb': bb, 'kind': kind, 'ops': ops, 'raw': t['args'], 'at': t.get('at'), 'term': t, 'exp': t.get('exp'),
                        'int_ty': m.group(1), 'via_ref_impl': True}
                if kind in ('DivisionByZero', 'RemainderByZero'):
                    site['cond'] = ('bin', 'Eq', ops[1], ('const', {'v': 0, 't': 0})) if len(ops) > 1 else None
                yield site
            elif c in PRECOND:
                ops = [f.expr_of_operand(o) for o in t['args']]
                yield {'fn': fn, 'bb': bb, 'kind': 'call:' + PRECOND[c] + ':' + short(c).split('::')[-1], 'ops': ops, 'raw': t['args'], 'at': t.get('at'),
                       'term': t, 'callee': c, 'exp': t.get('exp')}
            elif c.startswith(PANIC_CALLS):
                if any(p in c for p in ('slice_', 'str::slice_error')):
                    continue
                ops = [f.expr_of_operand(o) for o in t['args']]
                yield {'fn': fn, 'bb': bb, 'kind': 'panic:' + c.split('::')[-1], 'ops': ops, 'raw': t['args'], 'at': t.get('at'), 'term': t,
                       'callee': c, 'exp': t.get('exp')}
            elif t.get('target') is None and not c.startswith(('core::intrinsics::', 'std::intrinsics::')):
                # a call that never returns and is none of the known panic entry points (this list missed std::panicking::begin_panic -
                # `panic!("literal")` in the 2018 edition - until a seeded change made it matter): a site all the same, fail closed
                ops = [f.expr_of_operand(o) for o in t['args']]
                yield {'fn': fn, 'bb': bb, 'kind': 'panic:diverges:' + c.split('::')[-1], 'ops': ops, 'raw': t['args'], 'at': t.get('at'), 'term': t,
                       'callee': c, 'exp': t.get('exp')}


_FXG = [None]
_VIEW = [None]
ITEM_ADAPTORS = ('core::iter::traits::iterator::Iterator::map', 'core::iter::traits::iterator::Iterator::for_each',
                 'core::iter::traits::iterator::Iterator::filter', 'core::iter::traits::iterator::Iterator::filter_map',
                 'core::iter::traits::iterator::Iterator::take_while', 'core::iter::traits::iterator::Iterator::skip_while',
                 'core::iter::traits::iterator::Iterator::all', 'core::iter::traits::iterator::Iterator::any',
                 'core::iter::traits::iterator::Iterator::position', 'core::iter::traits::iterator::Iterator::find')
_ITEM_MEMO = {}


def closure_item_of_iter8(fx, f):
    """is parameter 2 of closure f the item of a `Bitstr::iter8()` walk (closure handed to an iterator adaptor whose
    receiver is iter8() itself)?  Items are (byte value, width) with width in 1..=8: Iter8::next takes the width from
    cut_bits (<= 8, re-derived on every run through upper_by_type of its return value) and yields None when no bit is left."""
    if fx is None or '{closure' not in f.name:
        return False
    if f.name in _ITEM_MEMO:
        return _ITEM_MEMO[f.name]
    res = False
    parent = fx.fns.get(f.name.rsplit('::{closure', 1)[0])
    if parent is not None:
        for bb, t in parent.calls():
            if callee_of(t) in ITEM_ADAPTORS and len(t['args']) == 2:
                clo = [x for x in expr_walk(parent.expr_of_operand(t['args'][1])) if isinstance(x, tuple) and x[0] == 'closure']
                cst = t['args'][1].get('c', {}).get('closure')
                if (clo and clo[0][1] == f.name) or cst == f.name:
                    recv = strip(parent.expr_of_operand(t['args'][0]))
                    if isinstance(recv, tuple) and recv[0] == 'call' and recv[1] == 'bitstr::Bitstr::iter8':
                        nx = fx.fns.get("<bitstr::Iter8<'a> as core::iter::traits::iterator::Iterator>::next")
                        if nx is not None:
                            widths = [x[3][0][3][1] for x in expr_walk(nx.expr_of_local(0))
                                      if isinstance(x, tuple) and x[0] == 'agg' and x[2] == 'Some' and x[3] and isinstance(x[3][0], tuple)
                                      and x[3][0][0] == 'agg' and len(x[3][0][3]) == 2]
                            res = bool(widths) and all(upper_by_type(nx, w) <= 8 for w in widths)
    _ITEM_MEMO[f.name] = res
    return res


def auto_discharge(fx, f, s, tainted_params):
    """returns (rule, why) or None"""
    _FXG[0] = fx
    kind = s['kind']
    ops = s['ops']
    if kind.startswith('Overflow(') or kind in ('OverflowNeg', 'DivisionByZero', 'RemainderByZero', 'BoundsCheck'):
        tys = [type_of_operand(f, o).lstrip('&').replace('mut ', '') for o in s['raw']]
        if s.get('int_ty'):
            tys = [s['int_ty'] if t_ not in BITS else t_ for t_ in tys]
        z, gtxt = build_zone(f, s['bb'], ops)
        for o, ty in zip(ops, tys):
            if ty in UNSIGNED:
                la = lin(o)
                if la:
                    for a in la[0]:
                        z.nonneg(a)
        taint = any(is_tainted(f, o, tainted_params) for o in ops)
        if kind in ('DivisionByZero', 'RemainderByZero'):
            # the assert operand is the dividend; the divisor is in the condition `Eq(divisor, 0) == false`
            c = cmp_of(strip(s['cond'])) if s.get('cond') is not None else None
            d = None
            if c is not None and c[0] == 'Eq':
                d = strip(c[1])
                z0 = strip(c[2])
                if isinstance(d, tuple) and d[0] == 'const' and not (isinstance(z0, tuple) and z0[0] == 'const' and z0[1].get('v') == 0):
                    d = z0
            if d is None:
                return None
            if isinstance(d, tuple) and d[0] == 'const' and d[1].get('v') not in (None, 0):
                return 'D-CONST', 'constant non-zero divisor %s' % d[1].get('v')
            if z.prove_lin_ge(lin(d), ({}, 0), 1):
                return 'D-ZONE', 'divisor >= 1 by %s' % gtxt[:2]
            return None
        if kind == 'BoundsCheck':
            ln, ix = ops
            if z.prove_lin_ge(lin(ln), lin(ix), 1):
                return 'D-ZONE', 'index < len by %s' % gtxt[:3]
            return None
        if kind == 'OverflowNeg':
            return None
        op = kind[len('Overflow('):-1]
        a, b = ops
        ta, tb = tys
        if op in ('Shl', 'Shr'):
            width = BITS.get(ta, 64)
            ub = upper_by_type(f, b)
            if ub < width:
                return ('D-CONST' if strip(b)[0] == 'const' else 'D-TYPE'), 'shift amount <= %s < %d bits' % (ub, width)
            zu = z.upper(lin(b))
            if zu < width:
                return 'D-ZONE', 'shift amount <= %s < %d by %s' % (zu, width, gtxt[:2])
            return None
        if ta in UNSIGNED:
            if op == 'Sub':
                if z.prove_lin_ge(lin(a), lin(b), 0):
                    return 'D-ZONE', 'minuend >= subtrahend by %s' % (gtxt[:3] or 'definitions (min/%)')
                la, lb = lin(a), lin(b)
                ua, ub_ = upper_by_type(f, b), None
                # a constant minuend minus a value bounded by its definition (8 - (x % 8), 7 - x % 8)
                if la and not la[0] and upper_by_type(f, b) <= la[1]:
                    return 'D-TYPE', 'subtrahend <= %s <= %s by definition' % (upper_by_type(f, b), la[1])
                return None
            if op in ('Add', 'Mul'):
                ua, ub_ = upper_by_type(f, a), upper_by_type(f, b)
                lim = (1 << BITS.get(ta, 64)) - 1
                if op == 'Add' and ua != INF and ub_ != INF and ua + ub_ <= lim:
                    return 'D-TYPE', 'operands bounded by their definitions (%s + %s)' % (ua, ub_)
                if op == 'Mul' and ua != INF and ub_ != INF and ua * ub_ <= lim:
                    return 'D-TYPE', 'operands bounded by their definitions (%s * %s)' % (ua, ub_)
                # bounded by the guards on the way here (x < v.len(), and a length is at most isize::MAX)
                if op == 'Add':
                    za, zb = min(ua, z.upper(lin(a))), min(ub_, z.upper(lin(b)))
                    if za != INF and zb != INF and za + zb <= lim:
                        return 'D-ZONE', 'operands bounded on this path (%s + %s) by %s' % (za, zb, gtxt[:2])
                if taint:
                    return None
                if op == 'Add' and (is_counter(a) and ub_ != INF and ub_ <= 64 or is_counter(b) and ua != INF and ua <= 64):
                    return 'D-LEN', 'loop counter advanced by a small constant once per consumed element'
                if op == 'Add' and '::{closure' in f.name and (_closure_counter(a) and ub_ != INF and ub_ <= 64 or _closure_counter(b) and ua != INF and ua <= 64):
                    return 'D-LEN', 'a counter captured by the closure, or the index the item carries, advanced by a small constant once per item of a collection held in memory'
                if op == 'Add' and (is_counter(a) and _counted_by_helper(fx, b) or is_counter(b) and _counted_by_helper(fx, a)):
                    return 'D-LEN', 'position advanced by what a helper counted (itself a sum of small per-element steps over data held in memory)'
                if ta == 'usize' or ta == 'u128' or ta == 'u64':
                    if op == 'Add' and length_like(f, a) and length_like(f, b):
                        return 'D-LEN', 'sum of buffer lengths / positions (< 2^56 each)'
                    if op == 'Add' and ((length_like(f, a) and ub_ != INF and ub_ < (1 << 32)) or (length_like(f, b) and ua != INF and ua < (1 << 32))):
                        return 'D-LEN', 'buffer position plus a small bounded value'
                    if op == 'Mul' and ((length_like(f, a) and ub_ != INF and ub_ <= 64) or (length_like(f, b) and ua != INF and ua <= 64)):
                        return 'D-LEN', 'buffer length times a constant <= 64'
                return None
        else:
            # signed: non-negative operands with known upper bounds
            ua, ub_ = upper_by_type(f, a), upper_by_type(f, b)
            lim = (1 << (BITS.get(ta, 64) - 1)) - 1
            if op == 'Mul' and ua != INF and ub_ != INF and ua * ub_ <= lim:
                return 'D-TYPE', 'non-negative operands bounded by their types (%s * %s fits %s)' % (ua, ub_, ta)
            if op == 'Add' and ua != INF and ub_ != INF and ua + ub_ <= lim:
                return 'D-TYPE', 'non-negative operands bounded by their types'
            if taint:
                return None
            if ta in ('isize', 'i128', 'i64', 'i32'):
                if op in ('Add', 'Sub') and all(_small_signed(f, x) for x in (a, b)):
                    return 'D-LEN', 'signed sum of a buffer position and a 32-bit offset'
            return None
    return None


def _place_text(e):
    """text of the innermost field place an expression borrows from (through refs / deref calls)"""
    e = strip(e)
    hops = 0
    while isinstance(e, tuple) and hops < 20:
        hops += 1
        if e[0] in ('ref', 'cast'):
            e = e[2]
        elif e[0] == 'call' and e[2] and (e[1].endswith('::deref') or e[1].endswith('::deref_mut') or e[1].endswith('as_mut_slice')):
            e = e[2][0]
        elif e[0] == 'proj' and all(p == '*' for p in e[2]):
            e = e[1]
        else:
            break
    return expr_str(e, -20)


def len_atom_for(z, vec_expr):
    p = _place_text(vec_expr)
    for n in sorted(z.nodes, key=len):
        if '::len(' in n and p in n and not n.startswith(('Sub(', 'Add(')):
            return n
    return None


def _sum_of_own_item_widths(recv, n, fx=None, depth=0):
    """n is built from nothing but 0, a loop carry, additions and the item widths that `recv.iter8()` yields"""
    def base(e):
        t = expr_str(e, -30)
        m = re.search(r'(bitstr_ext::rest_bits\(.*?\)\) as Continue\)\.0|arg\d+)', t)
        return m.group(1) if m else None
    rb = base(recv)
    if rb is None:
        return False
    widths = 0
    for y in expr_walk(n):
        if not isinstance(y, tuple) or not y:
            continue
        if y[0] == 'const':
            if isinstance(y[1], dict) and y[1].get('v') not in (0, 1, False, True):
                return False
        elif y[0] == 'bin':
            if y[1] not in ('Add', 'AddWithOverflow'):
                return False
        elif y[0] == 'call':
            c = y[1]
            if c.endswith("Iter8<'a> as core::iter::traits::iterator::Iterator>::next"):
                widths += 1
            elif c == 'bitstr::Bitstr::iter8':
                if base(y[2][0]) != rb:
                    return False
            elif c.endswith('::into_iter') or c == 'bitstr_ext::rest_bits' or c.endswith('Try>::branch') or c.endswith('::deref'):
                pass
            elif fx is not None and c in fx.fns and depth < 2 and '{closure' not in c:
                # a scan moved into a helper that is given the bit-string: its result has to be such a sum over ITS argument
                g = fx.fns[c]
                hit = [k for k, a in enumerate(y[2]) if base(a) == rb]
                if len(hit) != 1 or not _sum_of_own_item_widths(('arg', hit[0] + 1), g.expr_of_local(0), fx, depth + 1):
                    return False
                widths += 1
            elif not (c.endswith('::into_iter') or c == 'bitstr_ext::rest_bits' or c.endswith('Try>::branch') or c.endswith('::deref')):
                return False
        elif y[0] == 'arg' and rb != 'arg%d' % y[1] and y[1] != 1:
            return False
    return widths >= 1


def discharge_call(fx, f, s, tainted_params):
    kind, ops, c = s['kind'], s['ops'], s.get('callee', '')
    z, gtxt = build_zone(f, s['bb'], ops)
    k2 = kind.split(':')[1] if ':' in kind else kind
    if kind.startswith('call:'):
        if k2 == 'index' and len(ops) == 2:
            # D-FLOOR: a stack of the State sliced from the mark a context took of it (`flow_stack[ctx.fs_len..]`, also with a saved
            # context: older marks are lower).  Context floor invariant: a stack never shrinks below the mark of the current context
            # (C10.R1 / C11.R1 decide the truncations and the floored pops), so len() >= every live mark, whichever function asks
            t0, t1 = expr_str(ops[0], -8), expr_str(ops[1], -10)
            m0 = re.search(r'\.(flow_stack|data_stack|loops|special|return_stack)\)?$', t0)
            m1 = re.fullmatch(r'core::ops::range::RangeFrom::RangeFrom\{(.*)\.(fs_len|ds_len|ls_len|ss_ptr|rs_len)\}', t1)
            pair = {'flow_stack': 'fs_len', 'data_stack': 'ds_len', 'loops': 'ls_len', 'special': 'ss_ptr', 'return_stack': 'rs_len'}
            if m0 and m1 and pair[m0.group(1)] == m1.group(2) and not re.search(r'Add|Sub|Mul|\bcall\b', m1.group(1)):
                return 'D-FLOOR', 'State.%s[<context>.%s..]: the context floor invariant' % (m0.group(1), m1.group(2))
        if k2 == 'unwrap':
            x = strip(ops[0])
            if isinstance(x, tuple) and x[0] == 'call':
                n = x[1]
                if n in ('bitstr::Bitstr::read', 'bitstr::Bitstr::peek') and len(x[2]) == 2 and _sum_of_own_item_widths(x[2][0], x[2][1], fx):
                    return 'D-SCAN', 'the count is a sum of widths of items of the very bit-string it is cut from (iter8 of the receiver): at most its length'
                if n.endswith('Vec::<T, A>::pop') and x[2]:
                    la = len_atom_for(z, x[2][0])
                    if la and z.lower(la, '0') >= 1:
                        return 'D-ZONE', 'pop() on a vector whose length is >= 1 by %s' % gtxt[:2]
                if 'fmt::Write::write_fmt' in n and x[2] and 'String' in expr_str(x[2][0], -6) or ('write_fmt' in n and _is_string_target(f, x)):
                    return 'D-INFALLIBLE', 'write! into a String cannot fail'
                if n.endswith('char::from_u32') or n.endswith('<impl char>::from_u32'):
                    if upper_by_type(f, x[2][0]) <= 0xD7FF:
                        return 'D-TYPE', 'char::from_u32 of a value <= %s is always Some' % upper_by_type(f, x[2][0])
                if n.endswith('from_digit') and len(x[2]) == 2:
                    r = strip(x[2][1])
                    if isinstance(r, tuple) and r[0] == 'const' and upper_by_type(f, x[2][0]) < r[1].get('v', 0):
                        return 'D-TYPE', 'digit value < radix by its definition (>> 4 / & 0xf of a byte)'
            return None
        if k2 == 'radix':
            r = strip(ops[-1])
            vals = []
            def collect(e, depth=0):
                e = unwrap_value(strip(e))
                if isinstance(e, tuple) and e[0] == 'const' and 'v' in e[1]:
                    vals.append(e[1]['v']); return True
                if isinstance(e, tuple) and e[0] == 'phi' and depth < 4:
                    return all(collect(x, depth + 1) for x in e[1])
                if isinstance(e, tuple) and e[0] == 'agg' and e[2] in ('Some',) and e[3]:
                    return collect(e[3][0], depth + 1)
                if isinstance(e, tuple) and e[0] == 'agg' and e[2] == 'None':
                    return True
                if isinstance(e, tuple) and e[0] == 'call' and e[1].endswith('unwrap_or_else') and e[2]:
                    ok = collect(e[2][0], depth + 1)
                    clo = [y for y in expr_walk(e[2][1]) if isinstance(y, tuple) and y[0] == 'closure']
                    if clo and clo[0][1] in fx.fns:
                        g = fx.fns[clo[0][1]]
                        for (b0, i0, kind0, payload) in g.defs().get(0, []):
                            if kind0 == 'assign':
                                ok = ok and collect(g.expr_of_rvalue(payload, 0, frozenset()), depth + 1)
                    return ok
                return False
            if collect(r) and vals and all(2 <= v <= 36 for v in vals):
                return 'D-CONST', 'radix is one of the constants %s' % sorted(set(vals))
            # guarded radix
            if z.prove_lin_ge(lin(r), ({}, 0), 2) and z.upper(lin(r)) <= 36:
                return 'D-ZONE', 'radix checked to be in 2..=36'
            return None
        if k2 == 'div0' and len(ops) == 2:
            d = expr_str(unwrap_value(strip(ops[1])), -10)
            for (op, a, b) in guard_facts(f, s['bb']):
                if op == 'Ne':
                    sa, sb = expr_str(unwrap_value(strip(a)), -10), expr_str(unwrap_value(strip(b)), -10)
                    if (sa == d and sb == '0') or (sb == d and sa == '0'):
                        return 'D-ZONE', 'divisor != 0 on this path (dominating `== 0` test returns DivisionByZero)'
            return None
        if k2 == 'unwrap' and len(ops) >= 1:
            # char::from_u32(x).unwrap() with x below the surrogate range by its type (a byte widened to u32)
            e0 = strip(ops[0])
            if isinstance(e0, tuple) and e0[0] == 'call' and e0[1].endswith('::from_u32') and e0[2]:
                ub0 = upper_by_type(f, e0[2][0])
                if ub0 < 0xD800:
                    return 'D-TYPE', 'char::from_u32 of a value <= %s: every value below 0xD800 is a scalar value' % ub0
        if k2 == 'chunks':
            r = strip(ops[-1])
            if isinstance(r, tuple) and r[0] == 'const' and r[1].get('v', 0) > 0:
                return 'D-CONST', 'chunk size %s' % r[1]['v']
            return None
        if k2 == 'z85-text':
            # the text must have been vetted: some branch every path to the call takes tests a value computed from that very text
            txt = expr_str(strip(unwrap_value(strip(ops[0]))), -8)
            for (b2, e, side) in edge_guards(f, s['bb']):
                if txt and txt[:40] in expr_str(e, -30):
                    return 'D-GUARD', 'the text is tested (%s) before it is handed to z85::decode' % expr_str(e, -6)[:60]
            return None
        if k2 == 'fmt-width':
            from ..core import simplify
            v = strip(simplify(norm_refs(ops[0])))
            ub = upper_by_type(f, v)
            if ub <= 0xffff:
                return 'D-TYPE', 'run-time format width/precision <= %s <= u16::MAX' % ub
            zu = z.upper(lin(v))
            if zu <= 0xffff:
                return 'D-ZONE', 'run-time format width/precision <= %s by %s' % (zu, gtxt[:2])
            return None
        if k2 == 'str-index' and 'RangeFull' in expr_str(ops[-1], -4):
            return 'D-CONST', 'full range'
        if k2 == 'index' and 'RangeFull' in expr_str(ops[-1], -4):
            return 'D-CONST', 'full range of a slice'
        if k2 == 'str-index' and s['fn'].startswith('lex::Lex::'):
            r = cursor_range(fx, f, s)
            if r:
                return 'D-CURSOR', r
        if k2 in ('index', 'swap', 'remove') and len(ops) == 2:
            r = _position_of_same(fx, f, ops[0], ops[1])
            if r:
                return 'D-POS', r
        if k2 in ('index', 'swap', 'remove') and len(ops) >= 2:
            la = len_atom_for(z, ops[0])
            if la is None:
                return None
            lenl = ({la: 1}, 0)
            idxs = ops[1:]
            ok_all = True
            for ix in idxs:
                ixs = strip(ix)
                if isinstance(ixs, tuple) and ixs[0] == 'agg' and 'RangeFrom' in str(ixs[1]):
                    if not z.prove_lin_ge(lenl, lin(ixs[3][0]), 0):
                        ok_all = False
                elif isinstance(ixs, tuple) and ixs[0] == 'agg' and 'Range' in str(ixs[1]) and len(ixs[3]) == 2:
                    if not (z.prove_lin_ge(lin(ixs[3][1]), lin(ixs[3][0]), 0) and z.prove_lin_ge(lenl, lin(ixs[3][1]), 0)):
                        ok_all = False
                elif isinstance(ixs, tuple) and ixs[0] == 'agg':
                    ok_all = False
                else:
                    if not z.prove_lin_ge(lenl, lin(ixs), 1):
                        ok_all = False
            if ok_all:
                return 'D-ZONE', 'index/range within len by %s' % gtxt[:3]
            return None
    return None


CURSOR_FIELDS = ('pos', 'start_pos')


def _upvar_expr(fx, closure, idx):
    """(parent Fn, expression captured as upvar idx of the closure) or None"""
    parent = closure.rsplit('::{closure', 1)[0]
    pf = fx.fns.get(parent)
    if pf is None:
        return None
    for bb in pf.reachable_blocks():
        for st in pf.blocks[bb]['stmts']:
            if st['k'] == 'assign' and st['rv']['k'] == 'agg' and st['rv'].get('ak') == 'closure' and st['rv'].get('closure') == closure:
                fs = st['rv']['fields']
                if idx < len(fs):
                    return pf, pf.expr_of_operand(fs[idx])
    return None


def cursor_value(fx, f, e, depth=0, seen=()):
    """is e, on every path, a value that Lex.pos held at some earlier moment (a read of self.pos / self.start_pos,
    a copy of one, a parameter every caller fills with one, a closure capture of one)?  By C16.R2 such a value is a
    char boundary of buf, <= buf.len(), and not greater than the current pos (pos only grows)."""
    e = strip(e)
    if depth > 6 or not isinstance(e, tuple):
        return False
    if e[0] == 'phi':
        return all(cursor_value(fx, f, x, depth + 1, seen) for x in e[1])
    inner = '::{closure' in f.name
    if e[0] == 'proj':
        path = [p for p in e[2] if p != '*']
        base = strip(e[1])
        if path and path[-1] in CURSOR_FIELDS and isinstance(base, tuple) and base[0] == 'arg' and base[1] == 1:
            if not inner and len(path) == 1:
                return True                                   # self.pos / self.start_pos
            if inner and len(path) == 2 and path[0].isdigit():
                up = _upvar_expr(fx, f.name, int(path[0]))    # captured `self`
                return up is not None and _is_self(up[1])
        if inner and isinstance(base, tuple) and base[0] == 'arg' and base[1] == 1 and len(path) == 1 and path[0].isdigit():
            up = _upvar_expr(fx, f.name, int(path[0]))        # captured local (c_pos)
            return up is not None and cursor_value(fx, up[0], up[1], depth + 1, seen)
        return False
    if e[0] == 'arg' and not inner and e[1] >= 2 and f.name.startswith('lex::Lex::'):
        key = (f.name, e[1])
        if key in seen:
            return True
        sites = []
        for caller in sorted(fx.callers().get(f.name, ())):
            cf = fx.fns.get(caller)
            if cf is None:
                return False
            for bb, t in cf.calls():
                if callee_of(t) == f.name:
                    sites.append((cf, t))
        if not sites:
            return False
        return all(len(t['args']) >= e[1] and cursor_value(fx, cf, cf.expr_of_operand(t['args'][e[1] - 1]), depth + 1, seen + (key,)) for cf, t in sites)
    return False


def _is_self(e):
    e = strip(e)
    return isinstance(e, tuple) and e[0] == 'arg' and e[1] == 1


def cursor_range(fx, f, s):
    """buf[a..], buf[a..pos] on the lexer's own buffer with cursor values as bounds"""
    ops = s['ops']
    b0 = strip(ops[0])
    # the indexed string is self.buf (directly, or through the captured self of a closure)
    bs = expr_str(b0, -12)
    if not bs.endswith('.buf'):
        return None
    rng = strip(ops[-1])
    if not (isinstance(rng, tuple) and rng[0] == 'agg'):
        return None
    if 'RangeFrom' in str(rng[1]) and len(rng[3]) == 1:
        if cursor_value(fx, f, rng[3][0]):
            return 'buf[a..] with a an earlier value of the cursor: a char boundary <= len (C16.R2)'
        return None
    if str(rng[1]).endswith('::Range') and len(rng[3]) == 2:
        a, b = rng[3]
        if cursor_value(fx, f, a) and _current_pos(f, s, b):
            return 'buf[a..pos] with a an earlier value of the cursor and pos read at the site: boundaries, a <= pos <= len (C16.R2)'
    return None


def _current_pos(f, s, b):
    """the end bound is self.pos read in the block of the call itself (no step can lie between the read and the use)"""
    b = strip(b)
    if not (isinstance(b, tuple) and b[0] == 'proj' and [p for p in b[2] if p != '*'] == ['pos'] and _is_self(b[1])):
        return False
    if '::{closure' in f.name:
        return False
    # find the raw Range aggregate feeding the call and require its end operand to be defined in the same block
    t = s['term']
    p = op_place(t['args'][-1])
    if p is None:
        return False
    blk = f.blocks[s['bb']]
    agg = None
    for st in blk['stmts']:
        if st['k'] == 'assign' and st['lhs']['l'] == p['l'] and not st['lhs']['p'] and st['rv']['k'] == 'agg':
            agg = st['rv']
    if agg is None:
        return False
    endp = op_place(agg['fields'][-1])
    if endp is None:
        return False
    if endp['p']:
        return _pname(endp['p'][-1]) == 'pos'      # the field place itself
    for st in blk['stmts']:
        if st['k'] == 'assign' and st['lhs']['l'] == endp['l'] and not st['lhs']['p'] and st['rv']['k'] == 'use':
            q = op_place(st['rv']['o'])
            if q is not None and q['p'] and _pname(q['p'][-1]) == 'pos':
                return True
    return False


def _pname(p):
    return p.get('f') if isinstance(p, dict) else p


def _finder_field(fx, gname, depth):
    """field F if the crate-local method gname(self, ..) returns - bare, or wrapped in Some / Ok, on every path that returns an
    index at all - an index found by position()/rposition() over self.F.iter(), directly or through another such finder"""
    if depth > 3 or gname not in fx.fns:
        return None
    g = fx.fns[gname]

    def alts(e, d=0):
        e = unwrap_value(strip(e))
        if isinstance(e, tuple) and e[0] == 'phi' and d < 5:
            return [y for x in e[1] for y in alts(x, d + 1)]
        if isinstance(e, tuple) and e[0] == 'agg' and e[2] in ('Ok', 'Some') and e[3] and d < 5:
            return alts(e[3][0], d + 1)
        return [e]
    fields = set()
    for r in alts(g.expr_of_local(0)):
        if isinstance(r, tuple) and r[0] == 'agg' and r[2] in ('None', 'Err'):
            continue
        if isinstance(r, tuple) and r[0] == 'call' and 'FromResidual' in r[1]:
            continue              # the error exit of a `?`
        if isinstance(r, tuple) and r[0] == 'call' and (r[1].endswith('::rposition') or r[1].endswith('::position')) and r[2]:
            src = expr_str(r[2][0], -20)
            m = re.search(r'\(\*arg1\)\.(\w+)', src)
            if m and 'iter' in src and '::rev' not in src and 'skip' not in src:
                fields.add(m.group(1))
                continue
            return None
        if isinstance(r, tuple) and r[0] == 'call' and r[1] in fx.fns and r[2] and 'arg1' in expr_str(r[2][0], -6):
            sub = _finder_field(fx, r[1], depth + 1)
            if sub:
                fields.add(sub)
                continue
        return None
    return fields.pop() if len(fields) == 1 else None


def _position_of_same(fx, f, coll, idx):
    """v[i] where i is the Some-payload of position()/rposition() over v.iter() - found directly or by a crate-local finder
    method of the same receiver - and this function does not shrink v: the index is below len"""
    place = _place_text(coll)
    i = unwrap_value(strip(idx))
    alts = i[1] if isinstance(i, tuple) and i[0] == 'phi' else (i,)
    seen = False
    for a in alts:
        a = unwrap_value(strip(a))
        if isinstance(a, tuple) and a[0] == 'agg' and a[2] == 'None':
            continue
        if isinstance(a, tuple) and a[0] == 'agg' and a[2] == 'Some' and a[3]:
            a = unwrap_value(strip(a[3][0]))
        if not (isinstance(a, tuple) and a[0] == 'call'):
            return None
        finder_field = None
        if a[1] in fx.fns and a[2]:
            finder_field = _finder_field(fx, a[1], 0)
        elif (a[1].endswith('::rposition') or a[1].endswith('::position')) and a[2]:
            src = expr_str(a[2][0], -20)
            if 'iter' in src and place in src and 'skip' not in src and '::rev' not in src:
                seen = True
                continue
            return None
        if finder_field is None:
            return None
        # the finder searched  <recv>.<field>  and we index  <recv>.<field>
        if not place.endswith('.' + finder_field):
            return None
        seen = True
    if not seen:
        return None
    # nothing in this function removes elements of that collection
    for bb, t in f.calls():
        c = callee_of(t) or ''
        if c.split('::')[-1] in ('pop', 'truncate', 'remove', 'swap_remove', 'clear', 'drain', 'split_off') and t['args'] and \
                place in _place_text(f.expr_of_operand(t['args'][0])):
            return None
    return 'the index was found by position()/rposition() over the same collection, which this function does not shrink'


def _is_string_target(f, x):
    return x[2] and 'String' in expr_str(x[2][0], -8)


def _small_signed(f, e):
    e = strip(e)
    if isinstance(e, tuple) and e[0] == 'cast':
        inner = strip(e[2])
        if length_like(f, inner):
            return True
        pl = expr_str(inner, -6)
        if re.search(r'\.0\b', pl) or 'i32' in pl:
            return True
    if isinstance(e, tuple) and e[0] == 'const':
        return True
    return length_like(f, e)


def run(rep, facts, tier):
    fx = facts['dev']
    rep.rule('C08', 'every reachable panic-capable site is discharged by D-CONST / D-ZONE / D-TYPE / D-LEN / D-REVIEWED(+re-checked guard) or reported')
    reach = scope(fx)
    rep.floor('C08 functions in scope', len(reach), 750)
    tainted_params = compute_tainted_params(fx, reach)
    table = load_table()
    used = set()
    vocab = inline.rule_vocabulary()
    n_sites = 0
    by_rule = {}
    seen_keys = {}
    for s in enumerate_sites(fx, reach):
        f = fx.fns[s['fn']]
        n_sites += 1
        sig = sig_of(f, s['ops'])
        key = site_key(s['fn'], s['kind'], sig)
        # identical keys (same function, same operation on the same operands) are one obligation
        res, stale_guard = try_discharge(fx, f, s, key, tainted_params, table, used)
        if res is None and stale_guard is None:
            res = discharge_in_callers(fx, s, tainted_params, table, used, vocab)
        taint = any(is_tainted(f, o, tainted_params) for o in s['ops'])
        if res is None and stale_guard is not None:
            needs, reason = stale_guard
            rep.add('C08', key, False, 'reviewed discharge no longer valid: required guard `%s` does not dominate the site any more (%s)' % (needs, reason),
                    s['fn'], s['at'])
            continue
        if res is not None:
            by_rule[res[0]] = by_rule.get(res[0], 0) + 1
            rep.add('C08', key, True, '%s: %s' % res, s['fn'], s['at'], nontrivial=res[0] not in ('D-CONST',))
        else:
            rep.add('C08', key, False,
                    '%s in %s on %s%s: no discharge rule proves the panic condition false' %
                    (s['kind'], short(s['fn']), [expr_str(strip(o), -6)[:70] for o in s['ops']], ' [user-controlled operand]' if taint else ''),
                    s['fn'], s['at'])
    rep.floor('C08 panic-capable sites', n_sites, 250)
    check_recursion(rep, fx, reach)
    check_unmetered_growth(rep, fx)
    stale = sorted(set(table) - used)
    for k in stale:
        rep.note('reviewed table entry no longer matches any site (stale): %s' % k)
    rep.extra['discharged_by_rule'] = by_rule
    rep.extra['sites_enumerated'] = n_sites
    rep.extra['tainted_params'] = len(tainted_params)
    rep.extra['reviewed_table_entries'] = len(table)


# recursive components of the call graph in scope: what bounds their depth
RECURSION_REVIEWED = {
    # the walkers over nested values (Debug, concat, join) were listed here as 'bounded by the nesting depth, which running code has
    # to build first'.  An audit showed that bound to be no bound: three instructions per level build the nesting, 20000 levels
    # overflow a debug build.  They are known findings now (known_findings.txt), not reviewed entries.
    'state::State::fetch_and_run': 'Resolve re-dispatches the instruction it has just patched, which is no longer Resolve: depth 1',
}


def check_unmetered_growth(rep, fx):
    """Reading sources executes no instruction: neither the instruction limit nor the stack / heap limits stop a file that
    includes itself.  Every growth of the stack of pending inputs must sit behind a test of its length (a crash by memory
    exhaustion is a crash)."""
    from .. import awrite
    tracked = awrite.state_tracked(fx)
    W = awrite.all_field_writes(fx, 'state', tracked)
    n = 0
    for fn, ws in sorted(W.items()):
        f = fx.fns[fn]
        for w in ws:
            if w['field'][0] != 'input' or not w['how'].startswith('call:grow'):
                continue
            n += 1
            bounded = False
            for (op, a, b) in guard_facts(f, w['bb']):
                sa, sb = expr_str(strip(a), -12), expr_str(strip(b), -12)
                if op in ('Lt', 'Le', 'Gt', 'Ge') and (('len' in sa and '.input' in sa) or ('len' in sb and '.input' in sb)):
                    bounded = True
            rep.add('C08', 'C08:pending-sources-bounded:%s' % fn, bounded,
                    'D-GUARD: input.push() only below a bound on input.len()' if bounded else
                    '%s stacks another pending source without a bound: `include` executes no instruction, so a file that includes itself is read '
                    'until memory runs out, whatever limits are set' % short(fn), fn, w['at'])
    rep.floor('C08 growth sites of the pending-input stack', n, 1)


def check_recursion(rep, fx, reach):
    """stack exhaustion is a crash like any other.  Every cycle of the call graph in scope must have a stated bound on its depth
    that does not come from the source text alone (a source is not executed, so no instruction or stack limit stops a parser
    that recurses on nesting)."""
    g = {n: {c for c in fx.callgraph().get(n, ()) if c in reach} for n in reach}
    index, low, st, on, comps, counter = {}, {}, [], set(), [], [0]

    def sc(v):
        work = [(v, iter(sorted(g.get(v, ()))))]
        index[v] = low[v] = counter[0]
        counter[0] += 1
        st.append(v)
        on.add(v)
        while work:
            node, it = work[-1]
            adv = False
            for w in it:
                if w not in index:
                    index[w] = low[w] = counter[0]
                    counter[0] += 1
                    st.append(w)
                    on.add(w)
                    work.append((w, iter(sorted(g.get(w, ())))))
                    adv = True
                    break
                elif w in on:
                    low[node] = min(low[node], index[w])
            if adv:
                continue
            work.pop()
            if work:
                low[work[-1][0]] = min(low[work[-1][0]], low[node])
            if low[node] == index[node]:
                comp = []
                while True:
                    w = st.pop()
                    on.discard(w)
                    comp.append(w)
                    if w == node:
                        break
                if len(comp) > 1 or node in g.get(node, ()):
                    comps.append(sorted(comp))
    for v in sorted(g):
        if v not in index:
            sc(v)
    vocab = inline.rule_vocabulary()
    for comp in comps:
        # a cycle is identified by the functions somebody names; private helpers pulled out of (or into) it are part of the same
        # recursion: `f -> f` and `f -> f_item -> f` are one obligation
        # ... or, name-free, by its entries: the members somebody outside the cycle calls
        cs = set(comp)
        entries_ = [c for c in comp if any(k not in cs for k in fx.callers().get(c, ()))]
        named = [c for c in comp if c in RECURSION_REVIEWED or c in vocab] or entries_ or comp
        key = 'C08:recursion:' + '+'.join(short(c).split('::')[-1] if len(named) > 1 else c for c in named)
        why_ok = RECURSION_REVIEWED.get(named[0]) if len(named) == 1 else None
        f0 = fx.fns[named[0]]
        rep.add('C08', key, why_ok is not None, 'D-REVIEWED recursion: ' + (why_ok or '') if why_ok else
                'functions %s call each other without a bound on the depth that a limit could enforce: nesting in the input alone '
                'drives the native stack to exhaustion' % [short(c) for c in comp], comp[0], f0.j['span'])
    rep.extra['recursive_components'] = len(comps)


def try_discharge(fx, f, s, key, tainted_params, table, used):
    """-> ((rule, why) | None, (needs, reason) | None): automatic rules first, then the reviewed table with its guard re-checked"""
    res = auto_discharge(fx, f, s, tainted_params)
    if res is None and (s['kind'].startswith('call:') or s['kind'].startswith('panic:')):
        res = discharge_call(fx, f, s, tainted_params)
    if res is None and key not in table:
        # an entry may leave the operands open (`*`) where the argument does not depend on how they are written and rests on a
        # guard, which is mandatory for such an entry and re-checked below
        for fn_ in (s['fn'], s['fn'].split('::{closure')[0]):
            wk = site_key(fn_, s['kind'], '*')
            if wk in table and table[wk][0] not in ('', '-'):
                key = wk
                break
    if res is None and key not in table:
        # an argument that is a predicate over the whole program does not depend on which function the site stands in: moving the
        # site into a helper keeps the entry (only for the predicates named here)
        tail = ':%s:%s' % (s['kind'], key.split(':' + s['kind'] + ':', 1)[-1]) if (':' + s['kind'] + ':') in key else None
        if tail:
            for k2, (n2, _r2) in table.items():
                if n2 in FN_INDEPENDENT and k2.endswith(tail):
                    key = k2
                    break
    if res is None and key in table:
        needs, reason = table[key]
        used.add(key)
        ok_needs = True
        if needs and needs.startswith('@'):
            ok_needs = PREDICATES[needs](fx)
        elif needs and needs.startswith('?gt:'):
            # semantic guard: the facts on every path to the site prove  X > Y  for the atoms containing the two texts
            xa, ya = needs.split(':')[1], needs.split(':')[2]
            z, gtxt = build_zone(f, s['bb'], s['ops'])
            xs = [n_ for n_ in z.nodes if xa in n_ and not n_.startswith(('Sub(', 'Add('))]
            ys = [n_ for n_ in z.nodes if ya in n_ and not n_.startswith(('Sub(', 'Add('))]
            ok_needs = any(z.lower(x_, y_) >= 1 for x_ in xs for y_ in ys)
        elif needs and needs != '-':
            _, gtxt = build_zone(f, s['bb'], s['ops'])
            hay = ' ; '.join(gtxt) + ' ; ' + ' ; '.join(_calls_dominating(f, s['bb']))
            _sat = lambda hay_: all(any(alt.strip() in hay_ for alt in n_.split('||')) for n_ in needs.split('&&'))
            ok_needs = _sat(hay)
            if not ok_needs and not getattr(f, 'inlined', None) and f.name in fx.fns:
                # the guard may have moved into an unnamed helper called before the site: look again with helpers spliced in
                if _VIEW[0] is None or _VIEW[0].fx is not fx:
                    _VIEW[0] = inline.View(fx)
                vf = _VIEW[0](f.name)
                if vf is not f and getattr(vf, 'inlined', None):
                    for s2 in sites_of(vf):
                        if s2['kind'] == s['kind'] and s2.get('at') == s.get('at') and not s2['term'].get('inl'):
                            _, g2 = build_zone(vf, s2['bb'], s2['ops'])
                            hay2 = ' ; '.join(g2) + ' ; ' + ' ; '.join(_calls_dominating(vf, s2['bb']))
                            if _sat(hay2):
                                ok_needs = True
        if ok_needs:
            return ('D-REVIEWED', reason + ('' if needs in ('', '-') else ' [guard re-checked: %s]' % needs)), None
        return None, (needs, reason)
    return res, None


def discharge_in_callers(fx, s, tainted_params, table, used, vocab):
    """A site in a private helper that no rule or table entry names is judged where the helper is used: the helper is
    spliced into each caller and the site must be discharged there (automatic rules, or the caller's reviewed entry -
    the key a site had before it was moved into the helper)."""
    fn = s['fn']
    if '{closure' in fn:
        return discharge_closure_in_parent(fx, s, tainted_params, table, used)
    if fn in vocab:
        return None
    callers = sorted(c for c in fx.callers().get(fn, ()) if c in fx.fns)
    if not callers or len(callers) > 6:
        return None
    whys = []
    for caller in callers:
        vf = inline.inline_fn(fx, fx.fns[caller], lambda n: n == fn, depth=1)
        spl = [off for (c, off, cb) in getattr(vf, 'splices', []) if c == fn]
        if not spl:
            return None      # referenced but not called directly (function value): cannot judge in context
        for off in spl:
            hit = False
            for s2 in sites_of(vf, {off + s['bb']}):
                if s2['kind'] != s['kind']:
                    continue
                hit = True
                key2 = site_key(caller, s2['kind'], sig_of(vf, s2['ops']))
                res, stale = try_discharge(fx, vf, s2, key2, tainted_params, table, used)
                if res is None:
                    return None
                whys.append('%s: %s' % (short(caller), res[0]))
            if not hit:
                return None
    return 'D-CALLER', 'helper judged in each caller with its arguments substituted (%s)' % '; '.join(sorted(set(whys)))


# closure parameter 2 in terms of the receiver of the combinator the closure is handed to
_COMBINATOR_PARAM = {
    'core::result::Result::<T, E>::map_err': ('as Err', '0'), 'core::result::Result::<T, E>::or_else': ('as Err', '0'),
    'core::result::Result::<T, E>::unwrap_or_else': ('as Err', '0'),
    'core::result::Result::<T, E>::map': ('as Ok', '0'), 'core::result::Result::<T, E>::and_then': ('as Ok', '0'),
    'core::option::Option::<T>::map': ('as Some', '0'), 'core::option::Option::<T>::and_then': ('as Some', '0'),
    'core::option::Option::<T>::ok_or_else': None, 'core::option::Option::<T>::unwrap_or_else': None, 'core::option::Option::<T>::or_else': None,
}


def discharge_closure_in_parent(fx, s, tainted_params, table, used):
    """A `call:` / `panic:` site inside a closure that is handed to a Result/Option combinator is the same computation as the
    match arm it replaces: its operands are rewritten in the enclosing function's terms (captures -> the captured values,
    the closure parameter -> the payload of the combinator's receiver) and judged there, under the key that form has."""
    from ..core import expr_subst_args, simplify
    from ..logfx import _subst_upvars, _closure_of
    if not (s['kind'].startswith('call:') or s['kind'].startswith('panic:')):
        return None
    cname = s['fn']
    parent = fx.fns.get(cname.rsplit('::{closure', 1)[0])
    if parent is None:
        return None
    for bb, t in parent.calls():
        c = callee_of(t)
        if c not in _COMBINATOR_PARAM or len(t['args']) != 2:
            continue
        cl = _closure_of(parent.expr_of_operand(t['args'][1]))
        if cl is None or cl[0] != cname:
            continue
        recv = parent.expr_of_operand(t['args'][0])
        sel = _COMBINATOR_PARAM[c]
        param = ('proj', recv, sel) if sel else None
        ops2 = []
        for o in s['ops']:
            o2 = _subst_upvars(o, cl[1])
            if param is not None:
                o2 = expr_subst_args(o2, [('arg', 1), param])
            ops2.append(simplify(norm_refs(o2)))
        s2 = dict(s, fn=parent.name, bb=bb, ops=ops2, raw=[])
        key2 = site_key(parent.name, s['kind'], sig_of(parent, ops2))
        res, stale = try_discharge(fx, parent, s2, key2, tainted_params, table, used)
        if res is not None:
            return 'D-CALLER', 'closure judged as the match arm of %s it stands for (%s)' % (short(parent.name), res[0])
    return None


def _next_nonws_filters(fx):
    """Lex::next_nonws never hands back a Whitespace/Comment token: no return value is the unfiltered result of a
    Lex::next call, and the function switches on the Tok discriminant of what it fetched"""
    f = fx.fns.get('lex::Lex::next_nonws')
    if f is None:
        return False
    from ..core import return_defs
    for (bb, i, cls, d) in return_defs(f):
        if cls == 'forward' and d == 'lex::Lex::next':
            return False
    has_tok_switch = False
    for bb in f.reachable_blocks():
        t = f.blocks[bb]['term']
        if t['k'] == 'switch':
            e = f.expr_of_operand(t['discr'])
            if isinstance(e, tuple) and e[0] == 'discr' and e[2] == 'lex::Tok':
                has_tok_switch = True
    # and State::next_token is fed by next_nonws only
    nt = fx.fns.get('state::State::next_token')
    fed = nt is not None and any(callee_of(t) == 'lex::Lex::next_nonws' for _, t in nt.calls()) and \
        not any(callee_of(t) == 'lex::Lex::next' for _, t in nt.calls())
    return has_tok_switch and fed


def _to_uint_callers_bound_len(fx):
    """D-CONTRACT: every caller of Bitstr::to_uint / to_int (other than to_int itself) has checked len <= 128 first"""
    ok = True
    n = 0
    for target in ('bitstr::Bitstr::to_uint', 'bitstr::Bitstr::to_int'):
        for caller in fx.callers().get(target, ()):
            if caller == 'bitstr::Bitstr::to_int' or caller not in fx.fns:
                continue
            # the length test may sit in a private helper shared by the readers (`peek_int_bits`): look with helpers spliced in
            if _VIEW[0] is None or _VIEW[0].fx is not fx:
                _VIEW[0] = inline.View(fx)
            f = _VIEW[0](caller)
            for bb, t in f.calls():
                if callee_of(t) != target:
                    continue
                n += 1
                bounded = False
                for (op, a, b) in guard_facts(f, bb):
                    if op in ('Le', 'Lt') and 'Bitstr::len' in expr_str(strip(a), -10):
                        lb = lin(b)
                        if lb is not None and not lb[0] and lb[1] <= 128:
                            bounded = True
                if not bounded:
                    ok = False
    return ok and n >= 2


def _hex_prefix_is_ascii(fx):
    """Bitstr::from_hex_str reports the index of the first bad character counted in characters; the callers use it as a byte
    offset.  The two agree only while every character accepted before it is one byte long: the parser may skip ASCII
    whitespace and accept to_digit(16) digits, nothing else."""
    ok = True
    for name in ('bitstr::Bitstr::from_hex_str',):
        f = fx.fns.get(name)
        if f is None:
            return False
        cls = {callee_of(t) for _, t in f.calls() if (callee_of(t) or '').startswith('core::char::methods::<impl char>::')}
        if not cls <= {'core::char::methods::<impl char>::is_ascii_whitespace', 'core::char::methods::<impl char>::to_digit',
                       'core::char::methods::<impl char>::is_ascii_hexdigit', 'core::char::methods::<impl char>::is_ascii_digit'}:
            ok = False
        if 'core::char::methods::<impl char>::is_ascii_whitespace' not in cls and any('whitespace' in (c or '') for c in cls):
            ok = False
    return ok


def _line_bounds_are_boundaries(fx):
    """The bounds of the line slice in lex::token_location are char boundaries of the parent text whatever that text is: every
    value that can reach them is 0 or comes from the character iterator (an index it yielded, or that plus the len_utf8 of
    the character at it).  A non-zero constant (`end = 1`) is a boundary only if the text has a first character of one byte."""
    f = fx.fns.get('lex::token_location')
    if f is None:
        return False
    ok = False
    for bb, t in f.calls():
        c = callee_of(t) or ''
        if not (c.endswith('ArcStr::substr') or c.endswith('::substr')):
            continue
        ok = True
        for a in t['args'][1:]:
            e = f.expr_of_operand(a)
            todo, seen = [e], 0
            while todo and seen < 400:
                x = strip(todo.pop())
                seen += 1
                if not isinstance(x, tuple):
                    continue
                if x[0] == 'const':
                    if isinstance(x[1], dict) and x[1].get('v') not in (0, None):
                        return False
                    continue
                if x[0] in ('phi',):
                    todo += list(x[1])
                elif x[0] == 'agg':
                    todo += list(x[3])
                elif x[0] == 'proj' and 'CharIndices' in expr_str(x, -12):
                    continue
                elif x[0] == 'bin' and x[1] in ('Add', 'AddWithOverflow') and 'CharIndices' in expr_str(x, -12) and 'len_utf8' in expr_str(x, -12):
                    continue
                elif x[0] in ('proj', 'ref', 'cast'):
                    todo.append(x[1] if x[0] == 'proj' else x[2] if x[0] != 'cast' else x[2])
                elif x[0] in ('cycle',):
                    continue
                else:
                    return False
    return ok


def _reach_skipping(f, src, dst, edge, dead):
    """is dst reachable from src without the edge and without entering a block of `dead`?"""
    from collections import deque
    if src == dst:
        return True
    seen, dq = {src}, deque([src])
    while dq:
        b = dq.popleft()
        for n in f.succ(b):
            if (b, n) == edge or n in dead:
                continue
            if n == dst:
                return True
            if n not in seen:
                seen.add(n)
                dq.append(n)
    return False


def _function_entries_stay_functions(fx):
    """`;` looks up the dictionary entry its `:` made (index kept in the pending flow) and panics if it is not a Function any
    more.  Entries are appended, cut off at the end, removed as a whole - and overwritten in place in a few words.  None of
    those may turn a Function into something else: an in-place write of an `Entry::X` value (X not Function) is reached only
    over the arm of a switch on that very entry that found it to be an X already (`const` updates a constant, nothing else)."""
    from .. import awrite as _aw
    from ..pathq import _reach_without_edge
    tracked = _aw.state_tracked(fx)
    ent = fx.adts.get('state::Entry') or {}
    vnames = [v['name'] for v in ent.get('variants', [])]
    if 'Function' not in vnames:
        return False
    n = 0
    for fn in sorted(fx.fns):
        f0 = fx.fns[fn]
        if not any(w['field'][0] == 'dict' and w.get('elem') and w['how'].startswith('assign') for w in _aw.field_writes(fx, f0, tracked)):
            continue
        if _VIEW[0] is None or _VIEW[0].fx is not fx:
            _VIEW[0] = inline.View(fx)
        f = inline.thread_fn(_VIEW[0](fn))      # the test may sit in a private helper that returns the index it vetted
        for w in _aw.field_writes(fx, f, tracked):
            if not (w['field'][0] == 'dict' and w.get('elem') and w['how'].startswith('assign')) or w.get('stmt') is None:
                continue
            names = [x.get('f') if isinstance(x, dict) else x for x in w['stmt']['lhs']['p']]
            if names[-1:] != ['entry'] and names[-1:] != ['*']:
                continue          # a field inside the entry (len, immediate flag): the kind stays
            e = f.expr_of_rvalue(w['stmt']['rv'], 0, frozenset())
            aggs = [x for x in expr_walk(e) if isinstance(x, tuple) and x[0] == 'agg' and x[1] == 'state::Entry']
            if names[-1:] == ['*'] and not aggs:
                continue          # a write through a reference to a field (`*len = ..`)
            n += 1
            kinds = {x[2] for x in aggs}
            if kinds == {'Function'}:
                continue
            if not aggs or len(kinds) != 1:
                return False      # an entry of unknown kind is stored over another
            kind = list(kinds)[0]
            vi = vnames.index(kind)
            found = False
            # the search is not value-sensitive: a path that builds an error or a None (`None => return Ok(None)` in a helper
            # that hands the vetted index back as Some) does not arrive at a write that needs the index
            from ..pathq import error_blocks as _eb
            dead = set(_eb(f))
            for b3 in f.reachable_blocks():
                for st3 in f.blocks[b3]['stmts']:
                    if st3['k'] == 'assign' and st3['rv']['k'] == 'agg' and st3['rv'].get('adt') == 'core::option::Option' and st3['rv'].get('variant') == 'None':
                        dead.add(b3)
            for b2 in f.reachable_blocks():
                t = f.blocks[b2]['term']
                if t['k'] != 'switch':
                    continue
                d = f.expr_of_operand(t['discr'])
                if not (isinstance(d, tuple) and d[0] == 'discr' and d[2] == 'state::Entry' and 'dict' in expr_str(d[1], -20)):
                    continue
                listed = dict((v, tg) for v, tg in t['targets'])
                tgt = listed.get(vi)
                if tgt is None:
                    continue
                if not _reach_skipping(f, 0, w['bb'], (b2, tgt), dead):
                    found = True
            if not found:
                return False
    return n >= 1



FN_INDEPENDENT = ('@function-entries-stay-functions',)
PREDICATES = {'@next_nonws-filters': _next_nonws_filters, '@line-bounds-are-boundaries': _line_bounds_are_boundaries, '@to_uint-callers-bound-len': _to_uint_callers_bound_len,
              '@hex-prefix-is-ascii': _hex_prefix_is_ascii, '@function-entries-stay-functions': _function_entries_stay_functions}


def _calls_dominating(f, bb):
    dom = f.dominators()
    out = []
    for b2 in dom.get(bb, ()):
        t = f.blocks[b2]['term']
        if t['k'] == 'call' and callee_of(t):
            out.append('call ' + short(callee_of(t)))
    return out

# as-built addendum
EXPLANATION += ' As built (DESIGN 9.2): As built: every call that never returns is a site (std::panicking::begin_panic included); D-CURSOR, D-POS (through nested finders), D-GUARD, D-CALLER, D-INFALLIBLE discharges; recursive components of the call graph are sites (identified by entry functions); the stack of pending inputs is bounded; reviewed entries may carry whole-function predicates (@...) that are re-evaluated on every run.'
