"""C01 — structured control flow compiles to bytecode that means what the source says (structural part).

R1 jump codec exactness; R2 every placeholder jump is patched; R3 loop closers
drain Break and only the counted-loop closer makes Opcode::Break; R4 loop /
frame stack balance of the VM arms."""
from ..core import callee_of, expr_walk, expr_str, return_defs, short, op_place, MissingAnchor, unwrap_value
from .. import awrite
from ..pathq import exists_path_avoiding, blocks_after

EXPLANATION = (
    "Observational equivalence of every structured program with a reference evaluation is translation validation over an "
    "unbounded program space and is not decided. Four clauses are in the shape of the compiler and the VM, each necessary: "
    "R1 RelativeJump::from_to stores on every path a value derived from dest-origin / -(origin-dest) (no constant remap) and "
    "calculate is ip + offset, so a zero-distance back-jump re-executes itself (an empty loop body neither falls through nor "
    "leaves its index behind). R2 every site that emits a placeholder jump (RelativeJump::uninit()) captures the code origin "
    "into a pending Flow (or patches it in the same word); every origin-carrying Flow variant has a consumer that passes that "
    "origin to backpatch/backpatch_jump; placeholder opcodes patched through backpatch_jump are among those it accepts. "
    "R3 every switch on a pop_flow() result in a word that closes a loop opener (Begin/Do) has a Break arm (break is accepted "
    "inside any loop), and Opcode::Break - which pops the run-time loop record - is constructed only by the closer that pops "
    "Flow::Do. R4 in fetch_and_run: Do pushes the loop record exactly on the path that enters the body and nothing it calls "
    "before the branch touches the loop stack; Loop pops it exactly on the fall-through path; Break pops before jumping; Call "
    "pushes and Ret pops a frame; no other arm (except the native-call and re-dispatch arms) touches loop or return stack.")
RULE_TEXT = ("instances = return paths of from_to, placeholder emit sites, Flow variants, pop_flow switches of loop closers, "
             "Opcode::Break constructors, Opcode arms of fetch_and_run x (loop stack, return stack); non-trivial = "
             "provenance / path search")
ASSUMPTIONS = ["rustc MIR / Instance resolution correct"]


def r2_emitted_code_stays(rep, fx):
    """A jump is patched with the distance to an instruction that exists at that moment.  An instruction taken back afterwards
    shifts everything behind it: code is cut back only wholesale - the roll-back of a rejected source and the purge of a meta
    block, which cut the dictionary back with it - never by a builder word that thinks one of its instructions is superfluous."""
    from .. import awrite, inline
    tracked = awrite.state_tracked(fx)
    W0 = awrite.all_field_writes(fx, 'state', tracked)
    W = inline.view_writes(fx, inline.View(fx), tracked, W0)     # private helpers count where they are called
    n = 0
    for fn, ws in sorted(W.items()):
        cuts = [w for w in ws if w['field'][0] == 'code' and w['how'].startswith('call:shrink')]
        if not cuts:
            continue
        n += 1
        wholesale = any(w['field'][0] == 'dict' and w['how'].startswith('call:shrink') for w in ws)
        rep.add('C01.R2', 'C01.R2:%s:emitted-code-stays' % fn, wholesale,
                'cuts code back together with the dictionary (roll-back / purge of a whole context)' if wholesale else
                '%s removes instructions it (or an earlier word) has emitted: a jump already patched to land behind them now lands one '
                'instruction too far - `7 case 1 of 100 endof endcase 55` skips the 55 when no arm matches' % short(fn), fn, cuts[0]['at'])
    rep.floor('C01.R2 functions that cut code back', n, 2)


def run(rep, facts, tier):
    fx = facts['dev']
    rep.rule('C01.R1', 'jump codec exactness: from_to encodes the distance on every path, calculate adds it back')
    rep.rule('C01.R2', 'every placeholder jump is recorded in a pending flow (or patched in place) and every such flow has a patching consumer')
    rep.rule('C01.R3', 'loop closers drain Break; only the counted-loop closer builds Opcode::Break')
    rep.rule('C01.R4', 'loop / return stack balance of the VM arms')
    rep.rule('C01.R5', 'bindings: `local` re-binds its own slot; a variable definition allocates a fresh cell, enters it in the dictionary and compiles that cell')
    r1(rep, fx)
    r2(rep, fx)
    r2_emitted_code_stays(rep, fx)
    r3(rep, fx)
    r4(rep, fx)
    r5(rep, fx)


def r1(rep, fx):
    f = fx.need('opcodes::RelativeJump::from_to')
    defs = f.defs().get(0, [])
    n = 0
    for (bb, i, kind, payload) in defs:
        if kind != 'assign':
            continue
        n += 1
        e = f.expr_of_rvalue(payload, 0, frozenset())
        s = expr_str(e, -30)
        from_inputs = ('arg1' in s and 'arg2' in s) and ('Sub' in s)
        rep.add('C01.R1', 'C01.R1:from_to:return-derived-from-distance', from_inputs,
                'every return stores a value computed from dest - origin' if from_inputs else
                'from_to returns %s on some path: not the distance between origin and destination (a zero-distance jump must stay zero)' % s[:60],
                f.name, f.at(bb, i))
    rep.floor('C01.R1 return sites of from_to', n, 1)
    g = fx.need('opcodes::RelativeJump::calculate')
    s = expr_str(g.expr_of_local(0), -30)
    ok = 'Add' in s and 'arg2' in s and '.0' in s and 'Sub' not in s and 'Mul' not in s
    rep.add('C01.R1', 'C01.R1:calculate:ip-plus-offset', ok, 'calculate = ip + self.0' if ok else 'calculate is %s' % s[:80], g.name, g.j['span'])
    u = fx.need('opcodes::RelativeJump::uninit')
    s = expr_str(u.expr_of_local(0), -10)
    rep.add('C01.R1', 'C01.R1:uninit-is-zero', '{0}' in s.replace(' ', ''), 'placeholder is RelativeJump(0)', u.name, u.j['span'], nontrivial=False)


UNINIT = 'opcodes::RelativeJump::uninit'
PATCHERS = ('state::State::backpatch_jump', 'state::State::backpatch')


def r2(rep, fx):
    emitters = []
    for fn in sorted(fx.fns):
        f = fx.fns[fn]
        for bb, t in f.calls():
            if callee_of(t) == 'state::State::code_emit':
                e = f.expr_of_operand(t['args'][1])
                aggs = [x for x in expr_walk(e) if isinstance(x, tuple) and x[0] == 'agg' and x[1] == 'opcodes::Opcode']
                if aggs and any(isinstance(x, tuple) and x[0] == 'call' and x[1] == UNINIT for x in expr_walk(e)):
                    emitters.append((fn, bb, aggs[0][2], t))
    rep.floor('C01.R2 placeholder emit sites', len(emitters), 10)
    accepted = accepted_by_backpatch_jump(fx)
    produced = {}   # Flow variant -> opcode kinds
    for fn, bb, opk, t in emitters:
        f = fx.fns[fn]
        # a push_flow(Flow::V{.. origin ..}) in the same function whose payload is a code_origin() read, or a patch in place
        pushes = []
        for b2, t2 in f.calls():
            if callee_of(t2) == 'state::State::push_flow':
                e = f.expr_of_operand(t2['args'][1])
                for x in expr_walk(e):
                    if isinstance(x, tuple) and x[0] == 'agg' and x[1] == 'state::Flow':
                        has_org = any(isinstance(y, tuple) and y[0] == 'call' and y[1] == 'state::State::code_origin' for y in expr_walk(x))
                        pushes.append((x[2], has_org))
        patched_here = any(callee_of(t2) in PATCHERS for _, t2 in f.calls())
        ok = any(h for _, h in pushes) or patched_here
        for v, h in pushes:
            if h:
                produced.setdefault(v, set()).add(opk)
        rep.add('C01.R2', 'C01.R2:emit:%s:%s' % (fn, opk), ok,
                'origin recorded in pending flow %s' % [v for v, h in pushes if h] if any(h for _, h in pushes) else
                'patched in the same word' if patched_here else
                '%s emits a placeholder %s but neither records its origin in a pending flow nor patches it: the jump stays RelativeJump(0)' % (short(fn), opk),
                fn, t.get('at'))
        if patched_here and not any(h for _, h in pushes):
            rebuilt = False
            for b2, t2 in f.calls():
                if callee_of(t2) == 'state::State::backpatch':
                    e2 = f.expr_of_operand(t2['args'][2])
                    if any(isinstance(x, tuple) and x[0] == 'agg' and x[1] == 'opcodes::Opcode' and x[2] == opk for x in expr_walk(e2)):
                        rebuilt = True
            okk = opk in accepted or rebuilt
            rep.add('C01.R2', 'C01.R2:emit:%s:%s:patchable' % (fn, opk), okk, 'backpatch_jump accepts %s' % opk if okk else
                    'backpatch_jump panics on %s' % opk, fn, t.get('at'), nontrivial=False)
    # consumers per Flow variant
    flow = fx.adts.get('state::Flow')
    if not flow:
        raise MissingAnchor('enum state::Flow')
    rep.floor('C01.R2 Flow variants', len(flow['variants']), 14)
    consumers = flow_consumers(fx)
    for v in flow['variants']:
        name = v['name']
        if name not in produced:
            continue
        cons = consumers.get(name, [])
        ok = bool(cons)
        rep.add('C01.R2', 'C01.R2:flow:%s:has-patching-consumer' % name, ok,
                'origin of Flow::%s is patched by %s' % (name, sorted(short(c) for c in cons)) if ok else
                'no word takes Flow::%s off the flow stack and patches the jump it records' % name, 'state::Flow', flow['span'])
        # opcode kind accepted by the patcher used
        for c in cons:
            f = fx.fns[c]
            uses_bj = any(callee_of(t) == 'state::State::backpatch_jump' for _, t in f.calls())
            uses_b = any(callee_of(t) == 'state::State::backpatch' for _, t in f.calls())
            bad = [k for k in produced[name] if k not in accepted] if uses_bj and not uses_b else []
            rep.add('C01.R2', 'C01.R2:flow:%s:%s:opcode-accepted' % (name, c), not bad,
                    'placeholder kinds %s are patchable by %s' % (sorted(produced[name]), short(c)) if not bad else
                    'Flow::%s records a %s placeholder but %s patches it through backpatch_jump, which panics on that opcode' % (name, bad, short(c)),
                    c, f.j['span'], nontrivial=False)


def accepted_by_backpatch_jump(fx):
    f = fx.need('state::State::backpatch_jump')
    out = set()
    for bb in f.reachable_blocks():
        for st in f.blocks[bb]['stmts']:
            if st['k'] == 'assign' and st['rv']['k'] == 'agg' and st['rv'].get('adt') == 'opcodes::Opcode':
                out.add(st['rv']['variant'])
    # ... or, when the new instruction is built through a constructor picked by the `match` (`Opcode::Jump as fn(..) -> Opcode`),
    # the kinds the match on the old instruction lists
    ovs = [v['name'] for v in (fx.adts.get('opcodes::Opcode') or {}).get('variants', [])]
    for bb in f.reachable_blocks():
        t = f.blocks[bb]['term']
        if t['k'] == 'switch':
            e = f.expr_of_operand(t['discr'])
            if isinstance(e, tuple) and e[0] == 'discr' and e[2] == 'opcodes::Opcode':
                for v, _tg in t['targets']:
                    if isinstance(v, int) and v < len(ovs):
                        out.add(ovs[v])
    return out


def flow_switches(f):
    """[(bb, {variant: target}, scrutinee expr)] for switches on the discriminant of a Flow obtained from the flow stack"""
    out = []
    variants = None
    for b2 in f.reachable_blocks():
        for st in f.blocks[b2]['stmts']:
            if st['k'] == 'assign' and st['rv']['k'] == 'discr' and st['rv'].get('adt') == 'state::Flow':
                variants = dict(st['rv']['variants'])
    if variants is None:
        return out
    for bb in sorted(f.reachable_blocks()):
        t = f.blocks[bb]['term']
        if t['k'] != 'switch':
            continue
        e = f.expr_of_operand(t['discr'])
        if isinstance(e, tuple) and e[0] == 'discr' and e[2] == 'state::Flow':
            arms = {variants.get(v, str(v)): tgt for v, tgt in t['targets']}
            out.append((bb, arms, e[1]))
    return out


def flow_consumers(fx):
    """Flow variant -> functions that match it (from pop_flow/take_first_cond_flow) and call a patcher"""
    cons = {}
    # a word may patch through a small helper of its own (`patch_jump_to_here(org)`): local functions that reach a patcher count
    cg = fx.callgraph()
    via = set(PATCHERS)
    for _ in range(3):
        via |= {fn for fn in fx.fns if fn.startswith('state::') and set(cg.get(fn, ())) & via}
    for fn in sorted(fx.fns):
        f = fx.fns[fn]
        if not any(callee_of(t) in via for _, t in f.calls()):
            continue
        for bb, arms, scrut in flow_switches(f):
            s = expr_str(scrut, -20)
            if 'pop_flow' in s or 'take_first_cond_flow' in s:
                for v in arms:
                    cons.setdefault(v, []).append(fn)
    return cons


def r3(rep, fx):
    closers = []
    for fn in sorted(fx.fns):
        f = fx.fns[fn]
        sws = [(bb, arms, sc) for bb, arms, sc in flow_switches(f) if 'pop_flow' in expr_str(sc, -20)]
        if any(('Begin' in arms or 'Do' in arms) for _, arms, _ in sws):
            closers.append((fn, sws))
    rep.floor('C01.R3 loop closers', len(closers), 3)
    for fn, sws in closers:
        f = fx.fns[fn]
        for bb, arms, sc in sws:
            ok = 'Break' in arms
            key = 'C01.R3:%s:arms=%s' % (fn, '|'.join(sorted(arms)))
            rep.add('C01.R3', key, ok, 'handles a pending Break before/with its opener' if ok else
                    '%s pops a pending flow and accepts only %s: a `break` inside this loop (accepted by the break word) makes the closer fail '
                    'as unbalanced' % (short(fn), sorted(arms)), fn, f.at(bb))
    # who builds Opcode::Break
    n = 0
    for fn in sorted(fx.fns):
        f = fx.fns[fn]
        for bb in f.reachable_blocks():
            for st in f.blocks[bb]['stmts']:
                if st['k'] == 'assign' and st['rv']['k'] == 'agg' and st['rv'].get('adt') == 'opcodes::Opcode' and st['rv']['variant'] == 'Break' \
                        and not st.get('exp'):
                    n += 1
                    closes_do = any('Do' in arms for _, arms, _ in flow_switches(f))
                    rep.add('C01.R3', 'C01.R3:Opcode::Break-built-by:%s' % fn, closes_do,
                            'built by the closer of a counted loop (it pops the run-time loop record)' if closes_do else
                            '%s builds Opcode::Break without closing a Flow::Do: a break of a begin-loop would pop the index of an enclosing '
                            'counted loop' % short(fn), fn, st.get('at'))
    rep.floor('C01.R3 Opcode::Break constructions', n, 1)
    # the break word accepts exactly the loop openers the closers handle
    bf = fx.need('state::core_word_break')
    # the predicate handed to the iterator: a closure of the word or a local function taking the Flow
    # by reference (whichever spelling), whose switch scrutinee is its own argument
    clo = [c for c in fx.callgraph().get(bf.name, ()) if c in fx.fns and
           (c.startswith(bf.name + '::{closure') or not fx.fns[c].name.startswith('state::State::'))]
    accepted = set()
    for c in clo:
        for bb, arms, sc in flow_switches(fx.fns[c]):
            if any(isinstance(x, tuple) and x[0] == 'arg' for x in expr_walk(sc)):
                accepted |= set(arms)
    ok = accepted == {'Begin', 'While', 'Do'}
    rep.add('C01.R3', 'C01.R3:break-accepts-loop-openers', ok, 'break is accepted inside Begin / While / Do' if ok else
            'break accepts %s' % sorted(accepted), bf.name, bf.j['span'], nontrivial=False)


def r4(rep, fx):
    tracked = awrite.state_tracked(fx)
    W = dict(awrite.all_field_writes(fx, 'state', tracked))
    from .. import inline
    fx.need('state::State::fetch_and_run')
    far = inline.View(fx)('state::State::fetch_and_run')     # per-opcode helpers that no rule names are looked through
    if far is not fx.fns['state::State::fetch_and_run']:
        W[far.name] = awrite.field_writes(fx, far, tracked)
    memo = {}

    def effect(c, field, kind, stack=()):
        """does function c (transitively) grow/shrink State.<field>?"""
        k = (c, field, kind)
        if k in memo:
            return memo[k]
        if c in stack or c not in fx.fns:
            return False
        memo[k] = False
        r = any(w['field'][0] == field and w['how'].startswith('call:' + kind) and not w.get('elem') for w in W.get(c, []))
        if not r:
            for d in fx.callgraph().get(c, ()):
                if d in fx.fns and effect(d, field, kind, stack + (c,)):
                    r = True
                    break
        memo[k] = r
        return r
    sw = None
    variants = None
    for bb in sorted(far.reachable_blocks()):
        t = far.blocks[bb]['term']
        if t['k'] == 'switch':
            e = far.expr_of_operand(t['discr'])
            if isinstance(e, tuple) and e[0] == 'discr' and e[2] == 'opcodes::Opcode':
                sw = bb
                break
    if sw is None:
        raise MissingAnchor('Opcode switch')
    for b2 in far.reachable_blocks():
        for st in far.blocks[b2]['stmts']:
            if st['k'] == 'assign' and st['rv']['k'] == 'discr' and st['rv'].get('adt') == 'opcodes::Opcode':
                variants = dict(st['rv']['variants'])
    t = far.blocks[sw]['term']
    arms = {variants.get(v, str(v)): tgt for v, tgt in t['targets']}
    rep.floor('C01.R4 Opcode arms', len(arms), 20)

    def blocks_calling(pred):
        return {bb for bb, tt in far.calls() if pred(callee_of(tt))}
    setip = blocks_calling(lambda c: c == 'state::State::set_ip')
    nextip = blocks_calling(lambda c: c == 'state::State::next_ip')
    def eff_blocks(field, kind):
        return blocks_calling(lambda c: c is not None and effect(c, field, kind)) | {w['bb'] for w in W.get(far.name, []) if w['field'][0] == field and w['how'].startswith('call:' + kind) and not w.get('elem')}
    lp, lq = eff_blocks('loops', 'grow'), eff_blocks('loops', 'shrink')
    rp, rq = eff_blocks('return_stack', 'grow'), eff_blocks('return_stack', 'shrink')

    def must_pass(start, targets, through, what, key, arm):
        region = blocks_after(far, start) | {start}
        tg = targets & region
        if not tg:
            rep.add('C01.R4', key, False, 'arm %s never reaches the expected ip write' % arm, far.name, far.at(start))
            return
        p = exists_path_avoiding(far, start, lambda b: b in tg, through) if start not in through else None
        rep.add('C01.R4', key, p is None, 'every path of arm %s to that exit %s' % (arm, what) if p is None else
                'arm %s reaches its exit (bb%s) without %s' % (arm, '->bb'.join(map(str, p[:8])), what.replace('passes', 'passing')), far.name, far.at(start))

    def must_not_pass(start, targets, through, what, key, arm):
        region = blocks_after(far, start) | {start}
        bad = None
        for b in through & region:
            if (blocks_after(far, b) | {b}) & targets & region:
                bad = b
        rep.add('C01.R4', key, bad is None, 'no path of arm %s to that exit %s' % (arm, what) if bad is None else
                'arm %s: %s (bb%d) although the exit taken does not warrant it' % (arm, what.replace('touches', 'touching'), bad), far.name, far.at(start))

    for arm, start in sorted(arms.items()):
        region = blocks_after(far, start) | {start}
        if arm == 'Do':
            must_pass(start, nextip, lp, 'passes a push of the loop record', 'C01.R4:Do:enter-pushes-loop', arm)
            must_not_pass(start, setip, lp, 'touches the loop stack', 'C01.R4:Do:skip-does-not-push', arm)
        elif arm == 'Loop':
            must_pass(start, nextip, lq, 'passes a pop of the loop record', 'C01.R4:Loop:exit-pops-loop', arm)
            must_not_pass(start, setip, lq | lp, 'touches the loop stack', 'C01.R4:Loop:back-edge-keeps-loop', arm)
        elif arm == 'Break':
            must_pass(start, setip, lq, 'passes a pop of the loop record', 'C01.R4:Break:pops-loop', arm)
        elif arm == 'Call':
            must_pass(start, setip, rp, 'passes a push of a frame', 'C01.R4:Call:pushes-frame', arm)
        elif arm == 'Ret':
            must_pass(start, setip, rq, 'passes a pop of a frame', 'C01.R4:Ret:pops-frame', arm)
        if arm in ('NativeCall', 'Resolve'):
            continue
        allowed_l = {'Do': lp, 'Loop': lq, 'Break': lq}.get(arm, set())
        allowed_r = {'Call': rp, 'Ret': rq}.get(arm, set())
        stray = ((lp | lq) - allowed_l) & region, ((rp | rq) - allowed_r) & region
        # blocks shared by all arms after the join (the common tail) are not part of an arm: restrict to blocks dominated by the arm entry
        dom = far.dominators()
        stray_l = {b for b in stray[0] if start in dom.get(b, ())}
        stray_r = {b for b in stray[1] if start in dom.get(b, ())}
        ok = not stray_l and not stray_r
        rep.add('C01.R4', 'C01.R4:%s:no-stray-stack-effect' % arm, ok,
                'arm %s has no loop/return stack effect other than its own' % arm if ok else
                'arm %s touches the %s stack (bb%s)' % (arm, 'loop' if stray_l else 'return', sorted(stray_l or stray_r)), far.name, far.at(start),
                nontrivial=False)


def r5(rep, fx):
    """bindings.  (a) Opcode::InitLocal(i): when slot i exists it is overwritten (a `local` executed again in a loop re-binds
    its variable), a new slot is appended only otherwise - LoadLocal(i) reads slot i, so any other shape makes later reads see
    a stale binding.  (b) a word that defines a global variable allocates a cell (alloc_heap), inserts Entry::Variable(that
    cell) on every successful path, and the Store it compiles names that very cell: a redefinition never shares storage with
    the definition it shadows."""
    from .. import inline
    from .c08 import guard_facts
    from ..zone import strip as zstrip
    tracked = awrite.state_tracked(fx)
    V = inline.View(fx)
    fx.need('state::State::fetch_and_run')
    far = V('state::State::fetch_and_run')
    sw = None
    for bb in sorted(far.reachable_blocks()):
        t = far.blocks[bb]['term']
        if t['k'] == 'switch':
            e = far.expr_of_operand(t['discr'])
            if isinstance(e, tuple) and e[0] == 'discr' and e[2] == 'opcodes::Opcode':
                sw = bb
                break
    if sw is None:
        raise MissingAnchor('Opcode switch')
    variants = None
    for b2 in far.reachable_blocks():
        for st in far.blocks[b2]['stmts']:
            if st['k'] == 'assign' and st['rv']['k'] == 'discr' and st['rv'].get('adt') == 'opcodes::Opcode':
                variants = dict(st['rv']['variants'])
    arms = {variants.get(v, str(v)): tgt for v, tgt in far.blocks[sw]['term']['targets']}
    tgt = arms.get('InitLocal')
    if tgt is None:
        raise MissingAnchor('Opcode::InitLocal arm')
    dom = far.dominators()
    region = {b for b, d in dom.items() if d is not None and tgt in d}
    ws = [w for w in awrite.field_writes(fx, far, tracked) if w['bb'] in region and w['field'][0] == 'return_stack']

    def txt(w):
        if w.get('term'):
            return ' '.join(expr_str(far.expr_of_operand(a), -40) for a in w['term']['args'])
        return expr_str(far.expr_of_place(w['stmt']['lhs']), -40)
    over = [w for w in ws if (w['how'].startswith('call:overwrite') or w['how'].startswith('assign')) and 'locals' in txt(w) and 'InitLocal' in txt(w)]
    grow = [w for w in ws if w['how'].startswith('call:grow') and 'locals' in txt(w)]
    ok_over = False
    for w in over:
        for (op, a, b) in guard_facts(far, w['bb']):
            sa, sb = expr_str(zstrip(a), -20), expr_str(zstrip(b), -20)
            if op == 'Lt' and 'InitLocal' in sa and 'locals' in sb or op == 'Gt' and 'InitLocal' in sb and 'locals' in sa:
                ok_over = True
        if 'get_mut' in txt(w) or 'set_mut' in txt(w):
            ok_over = True      # checked accessor: Some only when the slot exists
    rep.add('C01.R5', 'C01.R5:InitLocal:rebinds-existing-slot', ok_over,
            'slot i is overwritten when i < locals.len()' if ok_over else
            'the InitLocal arm never overwrites slot i of the frame: a `local` executed a second time in the same call (loop body) leaves the first '
            'binding in place and LoadLocal(i) keeps reading it', far.name, far.at(tgt))
    ok_grow = bool(grow) and all(any((op in ('Ge', 'Gt', 'Eq', 'Le', 'Lt')) and 'InitLocal' in expr_str(zstrip(a), -20) + expr_str(zstrip(b), -20)
                                     and 'locals' in expr_str(zstrip(a), -20) + expr_str(zstrip(b), -20) for (op, a, b) in guard_facts(far, w['bb']))
                                 for w in grow)
    rep.add('C01.R5', 'C01.R5:InitLocal:appends-only-new-slot', ok_grow,
            'a slot is appended only on the side of the i-vs-len test where slot i does not exist' if ok_grow else
            'the InitLocal arm appends a slot without testing the slot index against locals.len()', far.name, far.at(tgt))
    # the appended slot must BE slot i: slots are numbered at compile time, and a `local` in a branch that was not taken (or in a
    # zero-trip loop) leaves a gap.  Either the append happens only for i == len, or the gap is filled first (a push inside a
    # loop that runs while len < i)
    from ..pathq import natural_loops
    exact = False
    for w in grow:
        for (op, a, b) in guard_facts(far, w['bb']):
            txt = expr_str(zstrip(a), -20) + expr_str(zstrip(b), -20)
            if op == 'Eq' and 'InitLocal' in txt and 'locals' in txt:
                exact = True
    pads = False
    for h, body, tail in natural_loops(far):
        if not (body & region):
            continue
        if any(w['bb'] in body for w in grow):
            for b2 in body:
                for (op, a, b) in guard_facts(far, b2):
                    txt = expr_str(zstrip(a), -20) + expr_str(zstrip(b), -20)
                    if op in ('Lt', 'Gt', 'Le', 'Ge', 'Ne') and 'InitLocal' in txt and 'locals' in txt:
                        pads = True
    rep.add('C01.R5', 'C01.R5:InitLocal:appended-slot-is-slot-i', exact or pads,
            'the gap left by skipped `local`s is filled before the append / the append happens only for i == len' if exact or pads else
            'for i > locals.len() the value is appended at index len, not i: after a `local` in a branch that was not taken, later locals '
            'land one slot early (`: f if 1 local a then 2 local b b ; false f` reports an index error)', far.name, far.at(tgt))

    # (a') at compile time a name has ONE slot.  Whoever builds Opcode::InitLocal takes the index from a search for the name
    # among the locals declared so far and appends only when the search fails: a local declared in both branches of an `if`
    # (two declarations, one of which runs) is then found by a later use whichever branch ran
    n_il = 0
    for fn in sorted(fx.fns):
        f = fx.fns[fn]
        if fn == far.name or 'core::clone::Clone' in fn or 'core::fmt::' in fn:
            continue          # the VM arm / derived copies of an existing instruction
        for bb in f.reachable_blocks():
            for st in f.blocks[bb]['stmts']:
                if st['k'] == 'assign' and st['rv']['k'] == 'agg' and st['rv'].get('adt') == 'opcodes::Opcode' and st['rv'].get('variant') == 'InitLocal':
                    n_il += 1
                    e = f.expr_of_operand(st['rv']['fields'][0])
                    searched = any(isinstance(x, tuple) and x[0] == 'call' and x[1].rsplit('::', 1)[-1] in ('position', 'rposition', 'find', 'find_map')
                                   for x in expr_walk(e))
                    rep.add('C01.R5', 'C01.R5:%s:a-name-has-one-slot' % fn, searched,
                            'the slot of `local x` is the slot x already has in this definition, a new one only for a new name' if searched else
                            '%s gives every `local` declaration a new slot (%s) without looking for the name: `: f if 1 local r else 2 local r then r ;` '
                            'resolves r to the slot of the second declaration, which `true f` never fills' % (short(fn), expr_str(e, -8)[:50]),
                            fn, st.get('at'))
    rep.floor('C01.R5 builders of Opcode::InitLocal', n_il, 1)

    # (b) variable definitions
    ALLOC = 'state::State::alloc_heap'
    INS = 'state::State::dict_insert'
    n = 0
    # defining units: functions that both allocate and insert; when the two were split over helpers, the innermost
    # non-helper function whose view (helpers spliced in) contains both
    direct = {fn for fn, f0 in fx.fns.items() if {ALLOC, INS} <= {callee_of(t) for _, t in f0.calls()}}
    units = [fx.fns[fn] for fn in sorted(direct)]
    cand = set()
    for c in fx.callers().get(ALLOC, ()):
        cand |= {c} | set(fx.callers().get(c, ()))
    for fn in sorted(cand - direct):
        if fn not in fx.fns or (V.transparent(fn) and fx.callers().get(fn)):
            continue
        if set(V.inlined_into(fn)) & direct:
            continue          # it merely calls a defining unit
        fv = V(fn)
        if {ALLOC, INS} <= {callee_of(t) for _, t in fv.calls()}:
            units.append(fv)
    for f in units:
        fn = f.name
        n += 1
        # the Entry::Variable inserted carries the allocated cell
        ent = []
        stores = []
        for bb in f.reachable_blocks():
            for st in f.blocks[bb]['stmts']:
                if st['k'] == 'assign' and st['rv']['k'] == 'agg' and not st.get('exp'):
                    if st['rv'].get('adt') == 'state::Entry' and st['rv'].get('variant') == 'Variable':
                        ent.append(f.expr_of_operand(st['rv']['fields'][0]))
                    if st['rv'].get('adt') == 'opcodes::Opcode' and st['rv'].get('variant') in ('Store', 'Load'):
                        stores.append((st['rv']['variant'], f.expr_of_operand(st['rv']['fields'][0]), st.get('at')))

        def fresh_only(e):
            e = unwrap_value(e)
            if isinstance(e, tuple) and e[0] == 'phi':
                return all(fresh_only(x) for x in e[1])
            return isinstance(e, tuple) and e[0] == 'call' and e[1] == ALLOC
        ok_e = bool(ent) and all(fresh_only(e) for e in ent)
        rep.add('C01.R5', 'C01.R5:%s:entry-is-fresh-cell' % fn, ok_e, 'Entry::Variable(alloc_heap(..))' if ok_e else
                '%s enters a variable whose cell is not the one it just allocated (%s)' % (short(fn), [expr_str(e)[:50] for e in ent]), fn, f.j['span'])
        for (var, e, at) in stores:
            ok_s = fresh_only(e)
            rep.add('C01.R5', 'C01.R5:%s:compiles-%s-of-fresh-cell' % (fn, var), ok_s, 'Opcode::%s(alloc_heap(..))' % var if ok_s else
                    '%s compiles %s of %s: on some path the cell is not the one allocated for this definition - a redefinition shares storage '
                    'with the variable it shadows and words compiled earlier see the new value' % (short(fn), var, expr_str(e)[:70]), fn, at)
        # every Ok return passes dict_insert
        oks = {bb for (bb, i, cls, d) in return_defs(f, follow=True) if cls in ('ok', 'forward')}
        ins_blocks = {bb for bb, t in f.calls() if callee_of(t) == INS}
        p = exists_path_avoiding(f, 0, lambda b: b in oks, ins_blocks)
        rep.add('C01.R5', 'C01.R5:%s:always-enters-dictionary' % fn, p is None, 'every successful path inserts the new entry' if p is None else
                '%s can succeed without inserting a dictionary entry (bb%s): the new definition does not shadow the old one'
                % (short(fn), '->bb'.join(map(str, p[:8]))), fn, f.j['span'])
    rep.floor('C01.R5 variable-defining functions', n, 1)

# as-built addendum
EXPLANATION += ' As built (DESIGN 9.2): R2 also: emitted code stays - `code` is cut back only by the roll-back of a rejected source and the purge of a meta block. R5 bindings: InitLocal(i) re-binds slot i and what it appends is slot i itself; at compile time a name has one slot; a variable definition allocates a fresh cell, enters the dictionary and compiles that cell.'
