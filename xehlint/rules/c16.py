"""C16 — the lexer is total and loses no text (structural part).

R1 every loop makes progress and every returned token consumed text;
R2 the cursor only moves forward, in whole characters, and tokens tile."""
import re
from ..core import callee_of, expr_walk, expr_str, return_defs, short, op_place, MissingAnchor
from .. import awrite
from ..pathq import natural_loops, blocks_after, exists_path_avoiding, try_continue_block

EXPLANATION = (
    "Literal values, decimal-to-double agreement and print/read round trips are numerical and not decided. Totality and "
    "tiling are a ranking-function argument whose premises are structural and decided from MIR: R2 Lex.pos is written only "
    "by take_char (pos += c.len_utf8() of the character peeked at pos, so it advances by 1..4 and stays on a char boundary) "
    "and Lex::new (0); Lex.start_pos only by the first statement of next (= pos); last_substr is buf.substr(start_pos..pos); "
    "hence consecutive tokens are adjacent, non-overlapping and start at 0. R1 in every natural loop of lex.rs each cycle "
    "through the header passes an advancing step that really advanced (take_char whose None leaves the loop or which is "
    "guarded by a successful peek_char; Chars/CharIndices::next whose None leaves the loop), and every Ok return of next other "
    "than EndOfInput lies behind a take_char that returned Some - so each call consumes at least one character and the "
    "cursor is bounded by buf.len(): every token stream terminates.")
RULE_TEXT = ("instances = writers of each Lex field, natural loops of lex.rs (cycle-without-progress search), Ok-return paths "
             "of Lex::next; non-trivial = needed loop analysis / path search")
ASSUMPTIONS = ["rustc MIR / Instance resolution correct", "str::chars / char_indices iterators advance on every Some",
               "char::len_utf8 is in 1..=4"]

TAKE = 'lex::Lex::take_char'
PEEK = 'lex::Lex::peek_char'
ITER_NEXT = ("<core::str::iter::Chars<'a> as core::iter::traits::iterator::Iterator>::next",
             "<core::str::iter::CharIndices<'a> as core::iter::traits::iterator::Iterator>::next",
             "<core::slice::iter::Iter<'a, T> as core::iter::traits::iterator::Iterator>::next",
             "<core::iter::adapters::rev::Rev<I> as core::iter::traits::iterator::Iterator>::next",
             "core::iter::range::<impl core::iter::traits::iterator::Iterator for core::ops::range::Range<A>>::next")


def option_switch(f, bb):
    """if block bb switches on the discriminant of an Option/ControlFlow local: (local expr, some_target, none_targets)"""
    t = f.blocks[bb]['term']
    if t['k'] != 'switch':
        return None
    e = f.expr_of_operand(t['discr'])
    if not (isinstance(e, tuple) and e[0] == 'discr'):
        return None
    adt = e[2]
    if adt not in ('core::option::Option', 'core::ops::control_flow::ControlFlow'):
        return None
    some_v = 1 if adt == 'core::option::Option' else 0   # Some=1 ; Continue=0
    some_t = None
    others = []
    for v, tgt in t['targets']:
        if v == some_v:
            some_t = tgt
        else:
            others.append(tgt)
    if some_t is None:
        some_t = t['otherwise']
    else:
        others.append(t['otherwise'])
    return e[1], some_t, others


def advancing_blocks(f, body, header=None):
    """blocks of a loop body whose execution guarantees the cursor moved (given the loop continues)"""
    adv = set()
    dom = f.dominators()
    for b in body:
        t = f.blocks[b]['term']
        if t['k'] != 'call':
            continue
        c = callee_of(t)
        if c == 'lex::Lex::next':
            # a whole token was scanned; the loop may continue only for Whitespace / Comment tokens, which (R1
            # token-consumed-text) are returned only after at least one character was consumed
            ok_tok = False
            for b2 in body:
                t2 = f.blocks[b2]['term']
                if t2['k'] != 'switch':
                    continue
                e2 = f.expr_of_operand(t2['discr'])
                if isinstance(e2, tuple) and e2[0] == 'discr' and e2[2] == 'lex::Tok':
                    vs = None
                    for st in f.blocks[b2]['stmts']:
                        if st['k'] == 'assign' and st['rv']['k'] == 'discr':
                            vs = dict(st['rv']['variants'])
                    stay = {(vs or {}).get(v, str(v)) for v, tgt in t2['targets'] if tgt in body and _reaches_header(f, tgt, body, header)}
                    other_stays = t2['otherwise'] in body and _reaches_header(f, t2['otherwise'], body, header)
                    if stay and stay <= {'Whitespace', 'Comment'} and not other_stays:
                        ok_tok = True
            if ok_tok:
                adv.add(b)
            continue
        if c == TAKE or c in ITER_NEXT:
            dest = t['dest']['l']
            # (i) result tested: the None side must leave the loop
            tested = False
            ok = False
            for b2 in body:
                sw = option_switch(f, b2)
                if sw is None:
                    continue
                src, some_t, others = sw
                if _mentions_call_at(src, c, b):
                    tested = True
                    # `?` form: Break edge (others) must leave the loop
                    none_in_loop = [o for o in others if o in body and not _is_unreachable(f, o)]
                    if not none_in_loop:
                        ok = True
            if tested and ok:
                adv.add(b)
            elif not tested and c == TAKE:
                # (ii) result unused: must be on the Some side of a peek_char test inside the loop
                for b2 in body:
                    sw = option_switch(f, b2)
                    if sw is None:
                        continue
                    src, some_t, others = sw
                    if any(isinstance(x, tuple) and x[0] == 'call' and x[1] == PEEK for x in expr_walk(src)):
                        if some_t in dom.get(b, ()) and len(f.pred(some_t)) == 1:
                            adv.add(b)
    return adv


def _reaches_header(f, start, body, header):
    """can `start` get back to the loop header without leaving the loop body?"""
    seen = set()
    st = [start]
    while st:
        x = st.pop()
        if x == header:
            return True
        if x in seen or x not in body:
            continue
        seen.add(x)
        st.extend(f.succ(x))
    return False


def _is_unreachable(f, b):
    return f.blocks[b]['term']['k'] == 'unreachable'


def _mentions_call_at(e, callee, bb):
    # (lexer functions are analysed as they are, never as views: block ids are their own origin)
    for x in expr_walk(e):
        if isinstance(x, tuple) and x[0] == 'call' and x[1] == callee and x[3] == bb:
            return True
    return False


def cycle_without(f, header, body, removed):
    """is there a cycle header ->* header inside body avoiding `removed`?"""
    if header in removed:
        return None
    seen = set()
    stack = [(s, [header, s]) for s in f.succ(header) if s in body and s not in removed]
    while stack:
        b, path = stack.pop()
        if b == header:
            return path
        if b in seen:
            continue
        seen.add(b)
        for s in f.succ(b):
            if s in body and s not in removed:
                stack.append((s, path + [s]))
    return None


RADIX_FMT = {'new_lower_hex': 16, 'new_upper_hex': 16, 'new_binary': 2, 'new_octal': 8}


def check_print_read(rep, fx):
    """C16's last sentence is about values; three conditions it cannot hold without are in the shape of the code."""
    from .c08 import type_of_operand
    from ..pathq import edge_guards
    # (a) `{:x}` / `{:b}` / `{:o}` of a signed integer print the two's complement bit pattern (`-1 ^hex print` wrote
    #     0xffffffffffffffffffffffffffffffff, which no literal denotes): in the printers of cell values they take an unsigned magnitude
    n_fmt = 0
    printed = set()
    for fn in sorted(fx.fns):
        f = fx.fns[fn]
        bad = []
        here = 0
        for bb, t in f.calls():
            c = callee_of(t) or ''
            kind = c.rsplit('::', 1)[-1]
            if 'fmt::rt::Argument' not in c or kind not in RADIX_FMT:
                continue
            ty = type_of_operand(f, t['args'][0]).replace('&', '').replace('mut ', '').strip()
            if ty not in ('i128', 'u128'):
                continue            # bytes of a bit-string dump, addresses: not the integers of the language
            here += 1
            printed.add(RADIX_FMT[kind])
            if ty == 'i128':
                bad.append('%s of %s' % (kind[4:], ty))
        if not here:
            continue
        n_fmt += here
        rep.add('C16.R3', 'C16.R3:radix-format-of-magnitude:%s' % fn, not bad,
                '%d radix formats, all of unsigned values' % here if not bad else
                '%s formats a signed integer in a radix (%s): a negative number is printed as its 128-bit two\'s complement pattern, which the '
                'lexer does not read back (`-1 ^hex print`)' % (short(fn), ', '.join(sorted(set(bad)))), fn, f.j['span'])
    rep.floor('C16.R3 radix format arguments of 128-bit integers', n_fmt, 6)
    # (b) + (c): the integer reader
    readers = [(fn, bb, t) for fn in sorted(fx.fns) if fn.startswith('lex::') for bb, t in fx.fns[fn].calls()
               if (callee_of(t) or '').endswith('::from_str_radix')]
    rep.floor('C16.R3 from_str_radix calls in the lexer', len(readers), 1)
    read = set()
    for fn, bb, t in readers:
        f = fx.fns[fn]
        read |= _radix_consts(fx, f, f.expr_of_operand(t['args'][1]))
        vetted = any('.tmp' in expr_str(e, -30) for (_, e, side) in edge_guards(f, bb))
        rep.add('C16.R3', 'C16.R3:integer-parser-sign-vetted:%s' % fn, vetted,
                'a test of the collected digits decides whether from_str_radix sees them' if vetted else
                '%s hands the collected text to from_str_radix untested: that function accepts a sign of its own, so `0x-5` reads as -5 and '
                '`0b+1` as 1 instead of being rejected' % short(fn), fn, t.get('at'))
    # (d) the number that was parsed is the number that is pushed: between from_str_radix / parse and the literal there is no
    #     narrowing or sign-changing `as` cast and no wrapping arithmetic (`mag as i128`, `wrapping_neg` read 2^127 as i128::MIN)
    from .. import casts
    from .c08 import build_zone
    lexfns = [fn for fn in fx.fns if fn.startswith('lex::')]
    parsed = lambda e: any(isinstance(x, tuple) and x[0] == 'call' and (x[1].endswith('::from_str_radix') or x[1].endswith('::parse')
                                                                        or x[1].endswith('FromStr>::from_str')) for x in expr_walk(e))
    badc = [(fn, frm, to, at, why) for (fn, frm, to, at, exact, why) in casts.lossy_user_casts(fx, lexfns, build_zone, type_of_operand, is_user=parsed)
            if not exact]
    wraps = []
    for fn in lexfns:
        f = fx.fns[fn]
        for bb, t in f.calls():
            c = callee_of(t) or ''
            if re.search(r'::(wrapping|overflowing|unchecked)_\w+$', c) and any(parsed(f.expr_of_operand(a)) for a in t['args']):
                wraps.append((fn, short(c), t.get('at')))
    okd = not badc and not wraps
    rep.add('C16.R3', 'C16.R3:literal-value-not-wrapped', okd,
            'no lossy cast or wrapping operation between the parser and the literal' if okd else
            'the lexer passes a parsed number through %s: a literal just outside the i128 range reads as a different number instead of being rejected'
            % ', '.join(['`as %s` on %s in %s' % (to, frm, short(fn)) for (fn, frm, to, at, why) in badc] + ['%s in %s' % (c, short(fn)) for fn, c, at in wraps]),
            (badc[0][0] if badc else wraps[0][0] if wraps else 'lex::Lex::next'), (badc[0][3] if badc else wraps[0][2] if wraps else None))
    missing = sorted(printed - read)
    rep.add('C16.R3', 'C16.R3:every-printed-radix-has-a-literal', not missing,
            'radixes printed for integers %s, radixes read %s' % (sorted(printed), sorted(read)) if not missing else
            'integers are printed in radix %s (`10 ^oct print` writes 0o12) but the lexer has no literal of that radix (it reads %s): the text '
            'does not read back' % (missing, sorted(read)), 'lex::Lex::next', None)


def _radix_consts(fx, f, e, depth=0):
    """the integer constants a radix argument can be: in the expression itself, in what the callers pass when it is a parameter
    (`parse_int_digits(radix)`), in what a local helper returns when it is computed by one (`radix_of_prefix(c)`)"""
    out = set()
    for x in expr_walk(e):
        if not isinstance(x, tuple) or not x:
            continue
        if x[0] == 'const' and isinstance(x[1], dict) and isinstance(x[1].get('v'), int):
            out.add(x[1]['v'])
        elif x[0] == 'arg' and depth < 2:
            for c in fx.callers().get(f.name, ()):
                g = fx.fns.get(c)
                if g is None:
                    continue
                for _, t in g.calls():
                    if callee_of(t) == f.name and x[1] - 1 < len(t['args']):
                        out |= _radix_consts(fx, g, g.expr_of_operand(t['args'][x[1] - 1]), depth + 1)
        elif x[0] == 'call' and x[1] in fx.fns and depth < 2 and '{closure' not in x[1]:
            out |= _radix_consts(fx, fx.fns[x[1]], fx.fns[x[1]].expr_of_local(0), depth + 1)
    return out


def run(rep, facts, tier):
    fx = facts['dev']
    rep.rule('C16.R1', 'every loop of the lexer makes progress; every token other than EndOfInput consumed at least one character')
    rep.rule('C16.R2', 'the cursor only moves forward by whole characters; start_pos is set once per token; tokens tile')
    rep.rule('C16.R3', 'what the printer writes the lexer reads, the parts visible in the code: radix formats print a magnitude, every radix printed has a literal form, the integer parser does not get to see a sign of its own')
    tracked = {'lex::Lex': awrite.struct_fields(fx, 'lex::Lex'), 'lex::XstrLines': awrite.struct_fields(fx, 'lex::XstrLines')}
    check_print_read(rep, fx)
    if not tracked['lex::Lex']:
        raise MissingAnchor('struct lex::Lex')
    W = awrite.all_field_writes(fx, 'lex', tracked)

    # ---------------- R2 writers
    allowed = {
        ('lex::Lex', 'pos'): {'lex::Lex::take_char': 'advance by len_utf8 of the peeked char'},
        ('lex::Lex', 'start_pos'): {'lex::Lex::next': 'token start := pos'},
        ('lex::Lex', 'tmp'): {'lex::Lex::next': 'scratch buffer for literal text'},
        ('lex::Lex', 'buf'): {},
        ('lex::XstrLines', 'pos'): {'<lex::XstrLines as core::iter::traits::iterator::Iterator>::next': 'line iterator'},
    }
    n_w = 0
    for fn, ws in sorted(W.items()):
        for w in ws:
            k = (w['adt'], w['field'][0])
            if k not in allowed:
                continue
            n_w += 1
            ok = fn in allowed[k]
            if k == ('lex::Lex', 'tmp') and fn.startswith('lex::Lex::'):
                # the scratch text buffer takes no part in the cursor argument; any method of the lexer may use it
                rep.add('C16.R2', 'C16.R2:write:Lex.tmp:%s' % fn, True, 'scratch buffer for literal text (not part of the cursor state)', fn, w['at'], nontrivial=False)
                continue
            rep.add('C16.R2', 'C16.R2:write:%s.%s:%s' % (k[0].split('::')[-1], k[1], fn), ok,
                    allowed[k].get(fn, '') if ok else '%s writes %s.%s (%s): the cursor no longer moves only by whole characters through take_char'
                    % (short(fn), k[0], k[1], w['how']), fn, w['at'], nontrivial=(k[1] == 'pos'))
    rep.floor('C16.R2 Lex field writes', n_w, 4)
    # take_char increments by len_utf8 of the peeked char
    tf = fx.need(TAKE)
    posw = [w for w in W.get(TAKE, []) if w['field'][0] == 'pos']
    ok = False
    why = 'take_char does not assign pos'
    for w in posw:
        e = tf.expr_of_rvalue(w['stmt']['rv'], 0, frozenset())
        s = expr_str(e, -20)
        adds = [x for x in expr_walk(e) if isinstance(x, tuple) and x[0] == 'bin' and x[1].startswith('Add')]
        if adds:
            a, b = adds[0][2], adds[0][3]
            sa, sb = expr_str(a, -20), expr_str(b, -20)
            if '.pos' in sa and 'len_utf8' in sb and 'peek_char' in sb or ('.pos' in sb and 'len_utf8' in sa and 'peek_char' in sa):
                ok = True
                why = 'pos := pos + len_utf8(c) for the c returned by peek_char at pos'
            else:
                why = 'pos is advanced by %s' % (sb if '.pos' in sa else sa)[:80]
    rep.add('C16.R2', 'C16.R2:take_char:advance-is-len_utf8', ok, why, TAKE, posw[0]['at'] if posw else tf.j['span'])
    # peek_char reads at pos
    pf = fx.need(PEEK)
    s0 = expr_str(pf.expr_of_local(0), -20)
    okp = '.pos' in s0 and 'chars' in s0
    rep.add('C16.R2', 'C16.R2:peek_char:reads-at-pos', okp, 'peek_char = buf[pos..].chars().next()' if okp else 'peek_char does not read the character at pos: %s' % s0[:80],
            PEEK, pf.j['span'])
    # start_pos := pos as the first effect of next
    nf = fx.need('lex::Lex::next')
    sw = [w for w in W.get(nf.name, []) if w['field'][0] == 'start_pos']
    ok = len(sw) == 1 and sw[0]['bb'] == 0 and '.pos' in expr_str(nf.expr_of_rvalue(sw[0]['stmt']['rv'], 0, frozenset()))
    rep.add('C16.R2', 'C16.R2:next:start_pos-is-pos-at-entry', ok,
            'start_pos := pos in the entry block, once' if ok else 'start_pos is not set exactly once, at entry, from pos', nf.name,
            sw[0]['at'] if sw else nf.j['span'])
    lf = fx.need('lex::Lex::last_substr')
    s0 = expr_str(lf.expr_of_local(0), -20)
    ok = 'substr' in s0 and '.start_pos' in s0 and '.pos' in s0
    rep.add('C16.R2', 'C16.R2:last_substr:start_pos..pos', ok, 'last_substr = buf.substr(start_pos..pos)' if ok else 'last_substr is %s' % s0[:80], lf.name, lf.j['span'])

    # ---------------- R1 loops
    n_loops = 0
    for fn in sorted(fx.fns):
        if not (fn.startswith('lex::') or fn.startswith('<lex::')):
            continue
        f = fx.fns[fn]
        if f.j['span'].startswith('src/lex.rs') is False:
            continue
        # `let skipped = matches!(tok, ..); if !skipped { return tok }`: the flag stands for the test that computed it
        from .. import inline as _inl
        if f.nblocks <= 40:          # (small functions only: threading the scanner itself multiplies its loops)
            f = _inl.thread_fn(f)
        loops = natural_loops(f)
        # merge loops with the same header
        by_h = {}
        for h, body, tail in loops:
            by_h.setdefault(h, set()).update(body)
        for h, body in sorted(by_h.items()):
            n_loops += 1
            adv = advancing_blocks(f, body, h)
            cyc = cycle_without(f, h, body, adv)
            key = 'C16.R1:loop:%s:header@%s' % (fn, _loop_sig(f, h, body))
            rep.add('C16.R1', key, cyc is None,
                    'every cycle passes an advancing step (%d advancing blocks)' % len(adv) if cyc is None else
                    'loop in %s can iterate without consuming input: cycle bb%s contains no take_char/next() that is guaranteed to advance'
                    % (short(fn), '->bb'.join(map(str, cyc[:10]))), fn, f.at(h))
    rep.floor('C16.R1 natural loops in lex.rs', n_loops, 9)

    # every non-EndOfInput Ok return of next is behind a successful take_char.  Token constructions may sit in next or
    # in private helpers of the lexer that next (transitively) calls: a helper's construction counts as guarded when it is
    # guarded inside the helper, or when every call site of the helper is (the helper runs only after a character was taken).
    helpers = {g for g in fx.reachable_from({nf.name}) if g.startswith('lex::Lex::') and g in fx.fns and '{closure' not in g
               and g not in (TAKE, PEEK)}
    helpers.add(nf.name)

    def some_sides(g):
        out = []
        for bb, t in g.calls():
            if callee_of(t) == TAKE:
                for b2 in g.reachable_blocks():
                    swi = option_switch(g, b2)
                    if swi and _mentions_call_at(swi[0], TAKE, bb):
                        out.append(swi[1])       # Some-side target
        return out

    def guarded_at(g, b, depth=0):
        dom = g.dominators()
        if any(t in dom.get(b, ()) for t in some_sides(g)):
            return True
        if g.name == nf.name or depth > 3:
            return False
        sites = []
        for caller in fx.callers().get(g.name, ()):
            cf = fx.fns.get(caller)
            if cf is None or caller not in helpers:
                return False
            sites += [(cf, bb) for bb, t in cf.calls() if callee_of(t) == g.name]
        return bool(sites) and all(guarded_at(cf, bb, depth + 1) for cf, bb in sites)

    tok_returns = []
    for gname in sorted(helpers):
        g = fx.fns[gname]
        for b in sorted(g.reachable_blocks()):
            for i, st in enumerate(g.blocks[b]['stmts']):
                if st['k'] == 'assign' and st['rv']['k'] == 'agg' and st['rv'].get('adt') == 'lex::Tok':
                    tok_returns.append((g, b, st['rv']['variant'], st.get('at')))
    rep.floor('C16.R1 Tok constructions in next and its helpers', len(tok_returns), 6)
    from ..pathq import bool_branch, cmp_of
    results = {}
    for g, b, variant, at in tok_returns:
        if variant == 'EndOfInput':
            continue
        guarded = guarded_at(g, b)
        if variant == 'Whitespace' and not guarded:
            # guarded by pos > start after the whitespace loop
            dom = g.dominators()
            for b2 in g.reachable_blocks():
                br = bool_branch(g, b2)
                if br:
                    c = cmp_of(br[0])
                    if c and c[0] == 'Gt' and '.pos' in expr_str(c[1]) and br[1] in dom.get(b, ()):
                        guarded = True
        k = 'C16.R1:next:token-consumed-text:%s' % variant
        prev = results.get(k)
        results[k] = (guarded and (prev is None or prev[0]), g.name, at) if guarded or prev is None else prev
        if not guarded:
            results[k] = (False, g.name, at)
    for k, (guarded, gname, at) in sorted(results.items()):
        variant = k.rsplit(':', 1)[1]
        rep.add('C16.R1', k, guarded,
                'returned only after take_char yielded a character' if guarded else
                'Tok::%s can be returned (from %s) without any character having been consumed: the caller loops forever on the same position' % (variant, short(gname)),
                gname, at)


def _loop_sig(f, h, body):
    """position-free signature of a loop: sorted callee names in its body"""
    cs = sorted({short(callee_of(f.blocks[b]['term'])).split('::')[-1] for b in body
                 if f.blocks[b]['term']['k'] == 'call' and callee_of(f.blocks[b]['term'])})
    return ','.join(cs)[:80] + '#%d' % len(body)

# as-built addendum
EXPLANATION += ' As built (DESIGN 9.2): R3 (necessary conditions of print/read-back): radix formats apply to an unsigned magnitude; every printed radix has a literal form; digits reach from_str_radix only after a test of the collected text; no narrowing cast or wrapping operation between parser and literal.'
