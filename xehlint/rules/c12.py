"""C12 — collection laws (structural part).

R1 the map's order and equal? agree on "same key"; R2 collections are values
(no in-place mutation of a collection reachable from elsewhere); R3 literal
builders collect in source order; R4 exact index boundaries of nth."""
from ..core import callee_of, expr_walk, expr_str, short, op_place, runtime_targets, immediate_targets, MissingAnchor, unwrap_value
from .. import awrite
from ..pathq import bool_branch, cmp_of

EXPLANATION = (
    "Agreement of every operation sequence with an association-list / sequence model is value-level and not decided. Decided "
    "from MIR: R1 the variant-pair tables of <Cell as PartialEq>::eq and of the ordering used by the red-black-tree map and by "
    "sort (<Cell as Ord>::cmp via partial_cmp) are extracted from the nested discriminant switches; every pair eq compares "
    "structurally must be ordered by cmp and cmp's fallback for unordered pairs must not be the constant Ordering::Equal "
    "(otherwise distinct keys collide) - violated on the pinned tree and listed as a known finding because an existing test "
    "pins the collision. R2 every rpds *_mut call and every write through a collection reference has a receiver that is a "
    "function-local owned handle (or the current frame's locals): nothing reachable through the data stack, the heap or "
    "another collection is mutated in place. R3 the vector/map literal builders insert the elements of the stack slice in "
    "forward order (later duplicates win, like the equivalent insert sequence) and only then pop them. R4 relative_index "
    "(nth, let patterns) rejects exactly |i| > len for negative and i >= len for non-negative indices.")
RULE_TEXT = ("instances = variant pairs of eq / cmp, rpds mutation sites, builder element provenance, index boundary "
             "comparisons; non-trivial = nested-switch table extraction / provenance")
ASSUMPTIONS = ["rustc MIR / Instance resolution correct", "rpds containers are persistent; rpds::RedBlackTreeMap identifies keys by Ord::cmp == Equal"]

RPDS_MUT = ('insert_mut', 'remove_mut', 'push_back_mut', 'drop_last_mut', 'set_mut', 'index_mut', 'get_mut')


def pair_table(f):
    """{(V, W)} of variant pairs that reach a non-default arm, from nested switches on the two halves of a tuple of value() results"""
    pairs = set()
    default_blocks = set()
    variants = None
    for b2 in f.reachable_blocks():
        for st in f.blocks[b2]['stmts']:
            if st['k'] == 'assign' and st['rv']['k'] == 'discr' and st['rv'].get('adt') == 'cell::Cell':
                variants = dict(st['rv']['variants'])
    if variants is None:
        return None

    def which(bb):
        t = f.blocks[bb]['term']
        if t['k'] != 'switch':
            return None
        e = f.expr_of_operand(t['discr'])
        if not (isinstance(e, tuple) and e[0] == 'discr' and e[2] == 'cell::Cell'):
            return None
        # which tuple half?
        s = expr_str(e[1], -20)
        half = None
        for x in expr_walk(e[1]):
            if isinstance(x, tuple) and x[0] == 'proj':
                idx = [p for p in x[2] if p in ('0', '1')]
                if idx:
                    half = int(idx[0])
                    break
        return half, t
    for bb in sorted(f.reachable_blocks()):
        w = which(bb)
        if w is None or w[0] != 0:
            continue
        _, t = w
        for v, tgt in t['targets']:
            w2 = which(tgt)
            if w2 is None or w2[0] != 1:
                continue
            for v2, tgt2 in w2[1]['targets']:
                if tgt2 != w2[1]['otherwise']:
                    pairs.add((variants.get(v, str(v)), variants.get(v2, str(v2))))
    return pairs


def run(rep, facts, tier):
    fx = facts['dev']
    rep.rule('C12.R1', "the map's order and equal? agree on 'same key': eq's structural pairs are ordered by cmp; cmp has no constant-Equal fallback")
    rep.rule('C12.R2', 'collections are values: rpds *_mut only on function-local owned handles')
    rep.rule('C12.R3', 'literal builders insert the stack slice in source order, then pop')
    rep.rule('C12.R4', 'exact index boundaries in relative_index')

    # ---------- R1
    eqf = fx.need('<cell::Cell as core::cmp::PartialEq>::eq')
    pcf = fx.need('<cell::Cell as core::cmp::PartialOrd>::partial_cmp')
    cmf = fx.need('<cell::Cell as core::cmp::Ord>::cmp')
    eqp, pcp = pair_table(eqf), pair_table(pcf)
    if not eqp or pcp is None:
        raise MissingAnchor('variant pair tables of Cell::eq / partial_cmp')
    rep.floor('C12.R1 eq variant pairs', len(eqp), 9)
    # does cmp delegate to partial_cmp?
    delegates = any(callee_of(t) == pcf.name for _, t in cmf.calls())
    # cmp may take what partial_cmp orders and add arms of its own for the types that have no order for sort but are keys all the same
    # (its own arms may live in a private helper: look at cmp with helpers spliced in)
    from .. import inline as _inl
    cmv = _inl.View(fx)(cmf.name)
    ordered = (set(pcp) | set(pair_table(cmv) or set()) | set(pair_table(cmf) or set())) if delegates else (pair_table(cmv) or pair_table(cmf) or set())
    # a variant without a payload has one value: Equal is its order
    cell = fx.adts.get('cell::Cell') or {}
    unit = {v['name'] for v in cell.get('variants', []) if not v.get('fields')}
    unordered = sorted(p for p in eqp if p not in ordered and not (p[0] == p[1] and p[0] in unit))
    rep.add('C12.R1', 'C12.R1:eq-pairs-ordered:missing=%s' % ','.join('%s' % a for a, b in unordered), not unordered,
            'every pair equal? compares structurally is ordered by Ord::cmp' if not unordered else
            'equal? compares %s structurally but Ord::cmp (used by the map and by sort) does not order them: distinct keys of these types '
            'compare Equal and collide in a map' % [a for a, b in unordered], cmf.name, cmf.j['span'])
    # both sides start from value()
    for f in (eqf, pcf):
        s0 = [x for bb, t in f.calls() for x in [callee_of(t)] if x == 'cell::Cell::value']
        rep.add('C12.R1', 'C12.R1:%s:through-value()' % f.name, len(s0) >= 2, 'compares value() of both sides (tags ignored)' if len(s0) >= 2 else
                '%s does not look through tags on both sides' % short(f.name), f.name, f.j['span'], nontrivial=False)
    # the order of each type is the one its `==` belongs to: only PartialOrd / Ord trait methods produce an Ordering here
    # (std contract: a == b iff partial_cmp(a, b) == Some(Equal)); f64::total_cmp, a hand-written compare or a key
    # function would separate or merge keys that equal? treats otherwise (0.0 and -0.0)
    for f in (pcf, cmv):
        odd = []
        for bb, t in f.calls():
            c = callee_of(t) or ''
            rty = f.ty(t['dest']['t']) if t.get('dest') else ''
            if 'Ordering' in rty and not (('PartialOrd' in c or 'Ord' in c.split('::')[-2:][0] or '::Ord' in c or 'cmp::impls' in c) and
                                          (c.endswith('::partial_cmp') or c.endswith('::cmp'))) and not c.startswith('core::option::Option') \
                    and c not in ('core::iter::traits::iterator::Iterator::cmp', 'core::iter::traits::iterator::Iterator::partial_cmp'):   # lexicographic by the items' own order, as Vec's Ord is
                odd.append(short(c))
        rep.add('C12.R1', 'C12.R1:%s:orders-by-the-types-own-order' % f.name, not odd,
                'every Ordering comes from a PartialOrd / Ord method of the operand type' if not odd else
                '%s takes an order from %s: not the order that the type\'s == belongs to, so keys equal? calls the same can be different '
                'map keys (0.0 / -0.0) or the other way round' % (short(f.name), odd), f.name, f.j['span'])
    # fallback of cmp
    fb = None
    for bb, t in cmf.calls():
        c = callee_of(t) or ''
        if c.endswith('::unwrap_or') or c.endswith('::unwrap_or_else') or c.endswith('::unwrap_or_default'):
            a = cmf.expr_of_operand(t['args'][1]) if len(t['args']) > 1 else None
            fb = expr_str(a) if a is not None else 'default'
    const_equal = fb is not None and 'Ordering::Equal' in fb
    # ... in whatever form: a return of the constant Equal from cmp (the catch-all arm of a match on the two values) says the
    # same as unwrap_or(Equal)
    for g_ in (cmf, cmv):
        for bb_ in g_.reachable_blocks():
            for st_ in g_.blocks[bb_]['stmts']:
                rv_ = st_.get('rv') or {}
                if st_['k'] == 'assign' and rv_.get('k') == 'agg' and rv_.get('adt') == 'core::cmp::Ordering' and rv_.get('variant') == 'Equal':
                    const_equal = True
                    fb = fb or 'a match arm that yields Ordering::Equal'
    rep.add('C12.R1', 'C12.R1:cmp-fallback-is-Equal', not const_equal,
            'cmp has no constant Equal fallback' if not const_equal else
            'Ord::cmp = partial_cmp().unwrap_or(Equal): any two values that partial_cmp does not order (different types, flags, nil, bit-strings, '
            'vectors, maps) are the SAME key for the tree map: `{ 1 "a" 2 5 }` becomes `{ 2 5 }`', cmf.name, cmf.j['span'])

    # ---------- R2
    tracked = awrite.state_tracked(fx)
    n_mut = 0
    for fn in sorted(fx.fns):
        f = fx.fns[fn]
        for bb, t in f.calls():
            c = callee_of(t) or ''
            if not (c.startswith('rpds::') or c.startswith('<rpds::')):
                continue
            name = c.split('::')[-1]
            if name not in RPDS_MUT:
                continue
            n_mut += 1
            e = f.expr_of_operand(t['args'][0])
            r = awrite.root_path(f, e, tracked)
            via_shared = any(isinstance(x, tuple) and x[0] == 'call' and (x[1] in ('cell::Cell::value', 'cell::Cell::vec', 'cell::Cell::as_map') or
                             x[1].endswith('rc::Rc<T, A> as core::ops::deref::Deref>::deref') or 'RefCell' in x[1]) for x in expr_walk(e))
            if r is not None:
                adt, flds, via, sh = r
                FRAME_OWNERS = {'state::State::fetch_and_run': 'VM step', 'state::State::reverse_changes': 'undo'}
                ok = flds[0] == 'return_stack' and fn in FRAME_OWNERS
                if not ok and flds[0] == 'return_stack':
                    from .c13 import _only_called_by
                    ok = _only_called_by(fx, fn, FRAME_OWNERS, set()) is not None     # a helper of the VM step / undo
                why = 'current frame locals (frame-private)' if ok else '%s mutates a collection stored in State.%s in place (%s)' % (short(fn), '.'.join(flds), name)
            elif via_shared:
                ok = False
                why = '%s calls %s on a collection reached through a shared reference' % (short(fn), name)
            else:
                ok = True
                why = 'receiver is a function-local owned handle'
            rep.add('C12.R2', 'C12.R2:%s:%s' % (fn, name), ok, why, fn, t.get('at'))
    rep.floor('C12.R2 rpds mutation sites', n_mut, 4)

    # ---------- R3
    COLLECTORS = ('core::iter::traits::iterator::Iterator::collect', 'core::iter::traits::collect::FromIterator::from_iter',
                  'core::iter::traits::collect::Extend::extend')
    for fn, kind in (('state::vec_collect_till_ptr', 'push_back_mut'), ('state::map_collect_till_ptr', 'insert_mut')):
        f = fx.need(fn)
        sites = [(bb, t) for bb, t in f.calls() if (callee_of(t) or '').endswith('::' + kind)]
        # the other spelling of the same thing: slice.iter()...collect() / from_iter / extend
        coll = [(bb, t) for bb, t in f.calls() if (callee_of(t) or '') in COLLECTORS or
                (callee_of(t) or '').endswith('FromIterator<T>>::from_iter') or (callee_of(t) or '').endswith('Extend<T>>::extend')]
        ok = bool(sites) or bool(coll)
        why = 'no %s / collect in %s' % (kind, short(fn))
        for bb, t in coll:
            e = f.expr_of_operand(t['args'][-1])
            txt = expr_str(e, -30)
            fwd = 'data_stack' in txt and 'iter' in txt and '::rev' not in txt and 'pop_data' not in txt
            if not fwd:
                ok = False
                why = '%s collects from %s: not a forward walk over the stack slice' % (short(fn), txt[:70])
            elif ok:
                why = 'elements are collected from a forward iteration over data_stack[ptr..]; pops happen afterwards'
        for bb, t in sites:
            for a in t['args'][1:]:
                e = f.expr_of_operand(a)
                calls = [x[1] for x in expr_walk(e) if isinstance(x, tuple) and x[0] == 'call']
                from_pop = any(c == 'state::State::pop_data' for c in calls)
                from_slice = any('Iter' in c and c.endswith('::next') or 'Chunks' in c for c in calls) and 'data_stack' in expr_str(e, -30)
                if from_pop or not from_slice:
                    ok = False
                    why = ('%s inserts elements as it pops them (reverse source order): for a repeated key the FIRST value wins, unlike the '
                           'equivalent insert sequence' % short(fn)) if from_pop else '%s does not take its elements from a forward walk over the stack slice' % short(fn)
                elif ok:
                    why = 'elements come from a forward iteration over data_stack[ptr..]; pops happen afterwards'
        rep.add('C12.R3', 'C12.R3:%s:source-order' % fn, ok, why, fn, f.j['span'])
    mf = fx.need('state::map_collect_till_ptr')
    for bb, t in mf.calls():
        if (callee_of(t) or '').endswith('::insert_mut'):
            k, v = expr_str(mf.expr_of_operand(t['args'][1]), -30), expr_str(mf.expr_of_operand(t['args'][2]), -30)
            okkv = ('[1]' in k or 'const 1' in k) and ('[0]' in v or 'const 0' in v)
            rep.add('C12.R3', 'C12.R3:map-literal:value-then-key', okkv, 'each chunk is (value, key): key = x[1], value = x[0]' if okkv else
                    'map literal takes key/value from the wrong halves of a pair', mf.name, t.get('at'), nontrivial=False)

    # ---------- R4
    rf = fx.need('state::relative_index')
    conds = []
    for bb in sorted(rf.reachable_blocks()):
        br = bool_branch(rf, bb)
        if br:
            c = cmp_of(br[0])
            if c:
                e, tbb, fbb = br
                def ret_of(b):
                    for (b0, i0, cls, d) in __import__('xehlint.core', fromlist=['return_defs']).return_defs(rf):
                        if rf.dominates(b, b0):
                            return cls
                    return None
                conds.append((c[0], expr_str(unwrap_value(c[1]), -10), expr_str(unwrap_value(c[2]), -10), ret_of(tbb), ret_of(fbb)))
    neg_ok = any(op == 'Gt' and 'abs' in a and b == 'arg1' and t == 'err' and f_ == 'ok' for op, a, b, t, f_ in conds)
    # the same boundary spelled `len.checked_sub(|i|)`: None exactly when |i| > len
    for x in expr_walk(rf.expr_of_local(0)):
        if isinstance(x, tuple) and x[0] == 'call' and x[1].endswith('<impl usize>::checked_sub') and len(x[2]) == 2:
            a0, a1 = expr_str(unwrap_value(x[2][0]), -10), expr_str(x[2][1], -10)
            if a0 == 'arg1' and 'abs' in a1 and 'arg2' in a1:
                neg_ok = True
    pos_ok = any(op == 'Lt' and 'arg2' in a and b == 'arg1' and t == 'ok' and f_ == 'err' for op, a, b, t, f_ in conds) or \
        any(op == 'Ge' and 'arg2' in a and b == 'arg1' and t == 'err' and f_ == 'ok' for op, a, b, t, f_ in conds) or \
        any(op == 'Gt' and a == 'arg1' and 'arg2' in b and t == 'ok' and f_ == 'err' for op, a, b, t, f_ in conds) or \
        any(op == 'Le' and a == 'arg1' and 'arg2' in b and t == 'err' and f_ == 'ok' for op, a, b, t, f_ in conds)      # the same test, spelled the other way round
    sign = any(op == 'Lt' and a == 'arg2' and b == '0' for op, a, b, t, f_ in conds)
    rep.add('C12.R4', 'C12.R4:relative_index:negative-boundary', neg_ok and sign,
            'negative index: None exactly when |i| > len (so -len is the first element)' if neg_ok and sign else
            'relative_index negative branch is not `|i| > len -> None`: %s' % conds, rf.name, rf.j['span'])
    rep.add('C12.R4', 'C12.R4:relative_index:non-negative-boundary', pos_ok and sign,
            'non-negative index: Some exactly when i < len' if pos_ok and sign else
            'relative_index non-negative branch is not `i < len -> Some`: %s' % conds, rf.name, rf.j['span'])

    # string indices count characters: slice_str cuts with chars().skip(a).take(n), so the length that negative / out-of-range
    # indices are resolved against must be the character count too (byte length differs for any non-ASCII string)
    from .. import inline
    ss = fx.fns.get('state::slice_str')
    if ss is None:
        raise MissingAnchor('state::slice_str')
    ssv = inline.View(fx)('state::slice_str')
    amounts = []
    for bb, t in ssv.calls():
        c = callee_of(t) or ''
        if c.endswith('Iterator::skip') or c.endswith('Iterator::take'):
            recv = expr_str(ssv.expr_of_operand(t['args'][0]), -20)
            if 'chars' in recv:
                amounts.append((c.split('::')[-1], expr_str(ssv.expr_of_operand(t['args'][1]), -40), t.get('at')))
    oku = bool(amounts) and all(('Chars' in a and 'count' in a) and 'ArcStr::len' not in a and '<impl str>::len' not in a for _, a, _ in amounts)
    rep.add('C12.R4', 'C12.R4:slice_str:index-unit-is-chars', oku,
            'skip/take over chars() use bounds resolved against chars().count()' if oku else
            'slice_str walks characters but resolves its indices against %s: for a string with multi-byte characters negative and clamped '
            'indices select other characters' % ([a[:60] for _, a, _ in amounts] or 'nothing recognisable'), ss.name, ss.j['span'])

    # ... and `length` of a string must use the same unit, or `s length` is not a valid bound for slice
    lf = fx.fns.get('state::core_word_length')
    if lf is None:
        raise MissingAnchor('state::core_word_length')
    lfv = inline.View(fx)('state::core_word_length')
    str_lens = []
    for x in expr_walk(lfv.expr_of_local(0)):
        pass
    for bb, t in lfv.calls():
        c = callee_of(t) or ''
        if c.endswith('::len') or c.endswith('::count'):
            recv = expr_str(lfv.expr_of_operand(t['args'][0]), -30)
            if 'as Str' in recv:
                str_lens.append((short(c), recv, t.get('at')))
    okl = bool(str_lens) and all('count' in c and 'chars' in r for c, r, _ in str_lens)
    rep.add('C12.R4', 'C12.R4:length:string-unit-is-chars', okl,
            'length of a string is chars().count(), the unit slice uses' if okl else
            'length measures a string with %s while slice counts characters: `s length` is not the number of elements slice sees '
            '(`"h\u00e9llo" length` is 6, `"h\u00e9llo" 0 5 slice` is the whole string)' % ([c for c, _, _ in str_lens] or 'nothing recognisable'),
            lf.name, (str_lens or [(0, 0, lf.j['span'])])[0][2])

    # foreach: the collection is taken off the stack by the first instruction of the loop BODY (foreach_next, at index 0).  A
    # counted loop over an empty range skips its body, so for an empty collection the word that prepares the range
    # (foreach_init) has to take it off itself - otherwise `[ ] foreach .. loop` leaves its argument behind
    fi, fnx = fx.fns.get('state::foreach_init'), fx.fns.get('state::foreach_next')
    if fi is None or fnx is None:
        raise MissingAnchor('state::foreach_init / foreach_next')
    from .c08 import guard_facts
    from ..zone import strip as zstrip
    next_pops = any(callee_of(t) == 'state::State::pop_data' for _, t in fnx.calls())
    fiv = inline.View(fx)('state::foreach_init')
    init_pops_on_empty = False
    for bb, t in fiv.calls():
        if callee_of(t) in ('state::State::pop_data', 'state::State::drop_data'):
            for (op, a, b) in guard_facts(fiv, bb):
                sa, sb = expr_str(zstrip(a), -12), expr_str(zstrip(b), -12)
                if op == 'Eq' and ('0' in (sa, sb)) and any(k in sa + sb for k in ('::len', '::size', 'is_empty')):
                    init_pops_on_empty = True
                if str(op) == 'IsEmpty' and b is True:
                    init_pops_on_empty = True
    okf = (not next_pops) or init_pops_on_empty
    rep.add('C12.R3', 'C12.R3:foreach:empty-collection-consumed', okf,
            'foreach_init takes an empty collection off the stack itself' if okf else
            'foreach_next (first instruction of the body) pops the collection, and nothing pops it when the body is skipped: '
            '`0 [ ] foreach I + loop` leaves `0 [ ]`, a non-empty vector leaves the sum alone', fi.name, fi.j['span'])
    # slice clamps out-of-range indices, so no integer index may make it fail: its index arguments must not go through a
    # conversion that rejects values beyond the machine word
    sl = fx.fns.get('state::core_word_slice')
    if sl is None:
        raise MissingAnchor('state::core_word_slice')
    slv = inline.View(fx)('state::core_word_slice')
    rej = sorted({short(callee_of(t)) for _, t in slv.calls() if callee_of(t) in ('cell::Cell::to_isize', 'cell::Cell::to_usize')})
    rep.add('C12.R4', 'C12.R4:slice:indices-clamp-not-fail', not rej,
            'the indices are taken as integers of any size and clamped' if not rej else
            'slice converts its indices with %s, which fails for values beyond the machine word, although every out-of-range index is '
            'supposed to clamp (`[ 1 2 3 ] 0 <2^100> slice`)' % rej, sl.name, sl.j['span'])

    # ---------- R4 (continued): index arguments reach the sequence words unchanged
    from .. import casts
    from .c08 import build_zone, type_of_operand
    fns = [fn for fn in fx.fns if fn.startswith(('cell::', 'state::')) and 'tests::' not in fn]
    n_c = 0
    for (fn, frm, to, at, exact, why) in casts.lossy_user_casts(fx, fns, build_zone, type_of_operand):
        n_c += 1
        rep.add('C12.R4', 'C12.R4:lossy-cast:%s:%s->%s' % (fn, frm, to), exact, why if exact else
                why + ' - an index beyond the machine word selects some other element (`[ 1 2 3 ] 18446744073709551616 nth` would be `0 nth`)', fn, at)
    rep.add('C12.R4', 'C12.R4:lossy-casts-counted', True, '%d narrowing casts of user integers in cell.rs / state.rs examined' % n_c, None, None, nontrivial=False)

# as-built addendum
EXPLANATION += ' As built (DESIGN 9.2): R1 also: each type is ordered by its own PartialOrd/Ord. R3 also: foreach consumes an empty collection like a non-empty one. R4 also: non-wrapping index conversion, slice clamps any integer, string words share one unit (characters). R1 as built: Ord::cmp may add arms of its own for same-type pairs; the constant-Equal fallback is recognised in whatever form it is written (known finding for keys of different types).'
