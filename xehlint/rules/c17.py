"""C17 — every error points at the token that caused it (mechanism).

R1 code and debug map move in lock-step; R2 the token of record is the token
just fetched; R3 every failing step records where it failed, first error wins;
R4 the line/column scan walks characters."""
from ..core import callee_of, expr_walk, expr_str, return_defs, short, op_place, MissingAnchor
from .. import awrite
from ..pathq import edge_guards, error_blocks
from ..zone import strip as zstrip
from ..pathq import bool_branch, exists_path_avoiding, blocks_after, natural_loops, try_continue_block

EXPLANATION = (
    "Line/column arithmetic is value-level and not decided. The mechanism that makes the right token available is structural "
    "and decided from MIR: R1 every function that changes the length of State.code applies the same kind of change with the "
    "same argument to State.debug_map on the same paths (code_emit: a debug_map write precedes code.push on every path; "
    "truncations use the same bound), so the map stays index-aligned through emit, backpatch and meta-block truncation. "
    "R2 only next_token pulls tokens from the lexer, and every path that obtained a result from Lex::next_nonws stores "
    "Some(lex.last_substr()) into last_token before returning or recursing; code_emit reads last_token for the map entry; "
    "the build-error mapper reads last_token. R3 every Err of fetch_and_run in run/next passes set_runtime_err_location, "
    "which reads debug_map[ip] while ip is still that of the failing instruction (no ip write precedes an Err return of "
    "fetch_and_run); every Err of build1 passes the build mapper; both recorders write last_error only under "
    "last_error.is_none() (the location captured first - the innermost, run-time one - is kept). R4 the scan that computes "
    "line/column is driven by a character iterator (Chars/CharIndices), a necessary condition for the column being the "
    "position of the token in characters.")
RULE_TEXT = ("instances = writers of code/debug_map per function, token-fetch paths, error exits of run/next/build0, "
             "recorder guards, scan-loop driver; non-trivial = path/dominance/provenance query")
ASSUMPTIONS = ["rustc MIR / Instance resolution correct", "Vec::push/truncate behave as documented"]


def _plain_count(e, depth=0):
    """phi(const | previous + 1 | ...): starts at / is reset to a constant and grows by one"""
    pass
    e = zstrip(e)
    if not isinstance(e, tuple) or depth > 6:
        return False
    if e[0] == 'const':
        return isinstance(e[1], dict) and isinstance(e[1].get('v'), int)
    if e[0] == 'cycle':
        return True
    if e[0] == 'phi':
        return all(_plain_count(x, depth + 1) for x in e[1])
    if e[0] == 'proj' and len(e[2]) == 1 and e[2][0] in (0, '0'):
        return _plain_count(e[1], depth + 1)          # (sum, overflowed).0 of the checked add
    if e[0] == 'bin' and e[1] in ('Add', 'AddWithOverflow'):
        a, b = zstrip(e[2]), zstrip(e[3])
        one = lambda x: isinstance(x, tuple) and x[0] == 'const' and isinstance(x[1], dict) and x[1].get('v') == 1
        return (one(b) and _plain_count(a, depth + 1)) or (one(a) and _plain_count(b, depth + 1))
    return False


def run(rep, facts, tier):
    fx = facts['dev']
    rep.rule('C17.R1', 'code and debug map move in lock-step (same length-changing operation, same bound, same paths)')
    rep.rule('C17.R2', 'the token of record is the token just fetched: single fetch point, last_token updated on every fetch')
    rep.rule('C17.R3', 'every failing step records where it failed, at the failing ip, and the first recorded location wins')
    rep.rule('C17.R4', 'the line/column scan is driven by a character iterator')
    tracked = awrite.state_tracked(fx)
    W0 = awrite.all_field_writes(fx, 'state', tracked)
    from .. import inline, stepfx
    V = inline.View(fx)
    W = inline.view_writes(fx, V, tracked, W0)      # unnamed helpers are looked through: their writes count where they are called

    # ---------- R1
    n = 0
    for fn, ws in sorted(W.items()):
        f = V(fn)
        cw = [w for w in ws if w['field'][0] == 'code' and (w['how'].startswith('call:grow') or w['how'].startswith('call:shrink'))]
        dw = [w for w in ws if w['field'][0] == 'debug_map']
        for w in cw:
            n += 1
            kind = 'grow' if 'grow' in w['how'] else 'shrink'
            key = 'C17.R1:%s:code-%s' % (fn, w['how'].split(':')[-1])
            if kind == 'shrink':
                mates = [d for d in dw if d['how'] == w['how']]
                ok = False
                why = '%s shrinks State.code (%s) but not State.debug_map: the map is no longer index-aligned' % (short(fn), w['how'])
                for d in mates:
                    a1 = [expr_str(f.expr_of_operand(a), -20) for a in w['term']['args'][1:]]
                    a2 = [expr_str(f.expr_of_operand(a), -20) for a in d['term']['args'][1:]]
                    same_paths = f.dominates(w['bb'], d['bb']) or f.dominates(d['bb'], w['bb'])
                    if a1 == a2 and same_paths:
                        ok = True
                        why = 'debug_map gets the same %s(%s) on the same paths' % (w['how'].split(':')[-1], ', '.join(a1)[:60])
                    elif a1 != a2:
                        why = 'code is cut to %s but debug_map to %s' % (a1, a2)
                rep.add('C17.R1', key, ok, why, fn, w['at'])
            else:
                # every path entry -> code.push passes a debug_map write (push or index assignment)
                dblocks = {d['bb'] for d in dw if d['how'].startswith('call:grow') or d['how'].startswith('assign')}
                p = exists_path_avoiding(f, 0, lambda b: b == w['bb'], dblocks) if 0 not in dblocks else None
                ok = p is None and bool(dblocks)
                rep.add('C17.R1', key, ok,
                        'every path to code.push first writes the debug_map entry for that index' if ok else
                        '%s can push an instruction without a debug_map entry (path bb%s)' % (short(fn), '->bb'.join(map(str, (p or [])[:8]))),
                        fn, w['at'])
                # the entry stored derives from last_token
                srcs = []
                for d in dw:
                    if d['how'].startswith('assign') and d.get('stmt'):
                        srcs.append(expr_str(f.expr_of_rvalue(d['stmt']['rv'], 0, frozenset()), -20))
                    elif d.get('term'):
                        srcs += [expr_str(f.expr_of_operand(a), -20) for a in d['term']['args'][1:]]
                okt = bool(srcs) and all('.last_token' in s_ for s_ in srcs)
                rep.add('C17.R1', 'C17.R1:%s:map-entry-is-last_token' % fn, okt,
                        'the map entry is the token of record (last_token)' if okt else 'debug_map entry does not come from last_token: %s' % srcs[:2],
                        fn, w['at'])
        # debug_map length changes without code change
        for d in dw:
            if d['how'].startswith('call:shrink') and not any(c['how'] == d['how'] for c in cw):
                rep.add('C17.R1', 'C17.R1:%s:debug_map-%s-alone' % (fn, d['how'].split(':')[-1]), False,
                        '%s shrinks debug_map but not code' % short(fn), fn, d['at'])
    rep.floor('C17.R1 length-changing writes to code', n, 3)
    # the other direction: a debug_map entry is written only when an instruction is appended.  Patching an instruction that is
    # already there (backpatch of a jump, Resolve) must leave its entry alone - the entry names the word that was compiled into
    # that slot, not the word that closed the construct later
    for fn, ws in sorted(W.items()):
        f = V(fn)
        dw = [w for w in ws if w['field'][0] == 'debug_map' and (w['how'].startswith('call:grow') or w['how'].startswith('assign'))]
        cg = [w for w in ws if w['field'][0] == 'code' and w['how'].startswith('call:grow')]
        for d in dw:
            cgb = {c['bb'] for c in cg}
            rets_ = set(f.return_blocks()) - error_blocks(f)
            okret = {bb for (bb, i, cls, dd) in return_defs(f) if cls in ('ok', 'forward', 'other')} or rets_
            ok = bool(cgb) and (any(f.dominates(c, d['bb']) for c in cgb) or d['bb'] in cgb or
                                exists_path_avoiding(f, d['bb'], lambda b: b in okret, cgb) is None)
            rep.add('C17.R1', 'C17.R1:%s:map-entry-written-only-with-an-append' % fn, ok,
                    'the entry is written on the way to code.push' if ok else
                    '%s writes a debug_map entry without appending an instruction: a patched instruction (if / else / while / do / of / break) '
                    'is re-attributed to the word that closed the construct, and a run-time error in it points there' % short(fn), fn, d['at'])
    # source texts stay as long as the code compiled from them: State.sources shrinks only together with code and debug_map
    n_src = 0
    for fn, ws in sorted(W.items()):
        f = V(fn)
        sw = [w for w in ws if w['field'][0] == 'sources' and w['how'].startswith('call:shrink')]
        ct = {w['bb'] for w in ws if w['field'][0] == 'code' and w['how'].startswith('call:shrink')}
        rets = set(f.return_blocks())
        for w in sw:
            n_src += 1
            p = exists_path_avoiding(f, w['bb'], lambda b: b in rets, ct) if w['bb'] not in ct else None
            before = any(f.dominates(c, w['bb']) for c in ct)
            ok = bool(ct) and (p is None or before)
            rep.add('C17.R2', 'C17.R2:%s:sources-shrink-only-with-code' % fn, ok,
                    'the registry is cut back on the paths that also cut code and debug_map back' if ok else
                    '%s drops source texts on a path that keeps the code compiled from them (bb%s): a later failure inside that code has no '
                    'source, line or column to report' % (short(fn), '->bb'.join(map(str, (p or [])[:8]))), fn, w['at'])
    rep.floor('C17.R2 shrinking writes to sources', n_src, 1)
    # ... and as long as they are being read: a cut of the registry that is not also a cut of the input stack (the purge at the
    # close of a meta block) has to spare the sources that still have a live input - its bound depends on State.input
    for fn, ws in sorted(W.items()):
        f = V(fn)
        sw = [w for w in ws if w['field'][0] == 'sources' and w['how'].startswith('call:shrink:truncate')]
        it = {w['bb'] for w in ws if w['field'][0] == 'input' and w['how'].startswith('call:shrink')}
        for w in sw:
            if any(f.dominates(b_, w['bb']) or f.dominates(w['bb'], b_) for b_ in it):
                continue          # a roll-back: the unread text goes as well
            bound = f.expr_of_operand(w['term']['args'][1])
            # the bound is chosen by a scan over the inputs: they are read on the way to the cut (the choice itself is control
            # flow - `if some lexer still reads this source { keep = i + 1 }` - so the bound's expression need not name them)
            reads_in = [ev['bb'] for ev in awrite.field_events(fx, f, {'state::State': {'input'}}) if not ev['mut']]
            chosen = any(isinstance(x, tuple) and x[0] == 'phi' for x in [zstrip(bound)] + list(expr_walk(bound)))
            if not chosen:
                # ... or the choice is made by an iterator chain (`filter(|src| inputs.iter().any(..)).map(|(i, _)| i + 1).last()`): a
                # closure in the bound's expression works on the lexers
                for x in expr_walk(bound):
                    if isinstance(x, tuple) and x and x[0] == 'closure':
                        g = fx.fns.get(x[1] if len(x) > 1 and isinstance(x[1], str) else '')
                        if g is not None and any('lex::Lex' in (g.local_ty(k) or '') for k in range(len(g.locals))):
                            chosen = True
                            if '.input' in expr_str(x, -12) or "'input'" in repr(x):
                                reads_in = reads_in + [w['bb']]          # the closure captures State.input itself
            live = any(w['bb'] in blocks_after(f, rb) or rb == w['bb'] for rb in reads_in) and chosen
            rep.add('C17.R2', 'C17.R2:%s:sources-cut-spares-live-inputs' % fn, live,
                    'the bound of the cut is computed from the inputs still being read' if live else
                    '%s cuts the source registry back to %s while the inputs stay: a source that is still being read (an `include` inside an enum) '
                    'is forgotten, and errors further down that file have no location' % (short(fn), expr_str(bound, -8)[:40]), fn, w['at'])
    # which source a token belongs to is a question of identity: its parent IS the interned buffer.  A comparison of the text
    # names the oldest source with the same content (`a b /` submitted twice: the second failure was put in <buffer#1>)
    n_id = 0
    from .c08 import type_of_operand
    # the lookups: functions that are handed the registry (a slice of (name, text) pairs), and their closures
    lookups = set()
    for fn, f0 in fx.fns.items():
        if '{closure' in fn:
            continue
        if any('[(arcstr::arc_str::ArcStr, arcstr::arc_str::ArcStr)]' in f0.local_ty(k).replace('ArcStr, ArcStr', 'arcstr::arc_str::ArcStr, arcstr::arc_str::ArcStr')
               or '[(arcstr::arc_str::ArcStr, arcstr::arc_str::ArcStr)]' in f0.local_ty(k) for k in range(1, f0.argc + 1)):
            lookups.add(fn)
    scope = sorted(fn for fn in fx.fns if fn.split('::{closure')[0] in lookups)
    for fn in scope:
        f = fx.fns[fn]
        for bb, t in f.calls():
            c = callee_of(t) or ''
            is_id = c.startswith('arcstr::arc_str::ArcStr::ptr_eq')
            is_txt = 'core::cmp::PartialEq' in c and any('ArcStr' in type_of_operand(f, a_) for a_ in t['args'])
            if not (is_id or is_txt):
                continue
            n_id += 1
            ok = is_id
            rep.add('C17.R2', 'C17.R2:%s:source-of-a-token-by-identity' % fn, ok,
                    'the parent buffer of the token is matched by identity' if ok else
                    '%s finds the source of a token by comparing texts: of two sources with the same text the older one is named' % short(fn), fn, t.get('at'))
    rep.floor('C17.R2 lookups of the source of a token', n_id, 1)
    # identity names one source only if no two registry entries share a buffer: whoever registers a source checks that the buffer
    # is not registered yet (and copies it otherwise), or registers a copy in the first place
    n_reg = 0
    for fn, ws in sorted(W.items()):
        f = V(fn)
        for w in ws:
            if w['field'][0] != 'sources' or not w['how'].startswith('call:grow'):
                continue
            n_reg += 1
            # ... and what it is compared with is an entry of the registry (the table the identity lookup searches), not some other
            # collection that merely holds some of the registered buffers (the pending inputs, say): the comparison sits in a body
            # that ranges over (name, text) pairs - a closure handed one, or a loop of the registrar itself over such pairs
            import re as _re
            pair = _re.compile(r'\((arcstr::arc_str::)?ArcStr, (arcstr::arc_str::)?ArcStr\)')

            def over_registry(g, is_closure):
                ls = range(1, g.argc + 1) if is_closure else range(g.argc + 1, len(g.locals))
                return any(pair.search(g.local_ty(k)) and (is_closure or 'Iter' in g.local_ty(k) or g.local_ty(k).lstrip().startswith('&')) for k in ls)
            bodies = [(f, False)] + [(fx.fns[c], True) for c in fx.callgraph().get(fn, ()) if c in fx.fns and c.startswith(fn + '::{closure')]
            has_cmp = [(g, cl) for g, cl in bodies if any((callee_of(t) or '').startswith('arcstr::arc_str::ArcStr::ptr_eq') for _, t in g.calls())]
            checked = any(over_registry(g, cl) for g, cl in has_cmp)
            if has_cmp and not checked:
                rep.add('C17.R2', 'C17.R2:%s:uniqueness-tested-against-the-registry' % fn, False,
                        '%s compares the new buffer by identity, but not with the entries of the source registry (no (name, text) pair is in reach of the '
                        'comparison): a buffer registered earlier and no longer pending is registered a second time, and the identity lookup then names the older entry' % short(fn), fn, w['at'])
                continue
            rep.add('C17.R2', 'C17.R2:%s:registered-buffer-is-unique' % fn, checked,
                    'a buffer that is registered already is recognised (ptr_eq against the registry) before the new entry is made' if checked else
                    '%s registers the buffer it is given without looking whether an entry has it already: the same Xstr submitted twice shares '
                    'one buffer between two entries, and the identity lookup names the older one' % short(fn), fn, w['at'])
    rep.floor('C17.R2 registrations of a source', n_reg, 1)

    # ---------- R2
    nt = fx.need('state::State::next_token')
    fetchers = []
    for fn in sorted(fx.fns):
        if fn.startswith('lex::') or fn.startswith('<lex::'):
            continue
        for bb, t in fx.fns[fn].calls():
            if callee_of(t) in ('lex::Lex::next_nonws', 'lex::Lex::next'):
                fetchers.append((fn, bb, t))
    for fn, bb, t in fetchers:
        ok = fn == nt.name
        rep.add('C17.R2', 'C17.R2:fetch-site:%s' % fn, ok, 'the single place tokens are pulled from the lexer' if ok else
                '%s pulls a token from the lexer without recording it as the token of record' % short(fn), fn, t.get('at'))
    rep.floor('C17.R2 token fetch sites', len(fetchers), 1)
    lw = [w for w in W.get(nt.name, []) if w['field'][0] == 'last_token' and w['how'] == 'assign']
    for fn, bb, t in [x for x in fetchers if x[0] == nt.name]:
        wb = {w['bb'] for w in lw}
        rets = set(nt.return_blocks()) | {b for b, tt in nt.calls() if callee_of(tt) == nt.name}
        p = exists_path_avoiding(nt, bb, lambda b: b in rets, wb)
        val_ok = any('last_substr' in expr_str(nt.expr_of_rvalue(w['stmt']['rv'], 0, frozenset()), -20) for w in lw)
        rep.add('C17.R2', 'C17.R2:next_token:records-every-fetch', p is None and val_ok,
                'every path after next_nonws stores Some(lex.last_substr()) into last_token before returning/recursing' if p is None and val_ok else
                'a fetched token is not recorded (path bb%s, value-from-last_substr=%s)' % ('->bb'.join(map(str, (p or [])[:8])), val_ok),
                nt.name, t.get('at'))
    # other writers of last_token
    for fn, ws in sorted(W.items()):
        for w in ws:
            if w['field'][0] == 'last_token':
                ok = fn in ('state::State::next_token', 'state::State::next_name') or fn.split('::{closure')[0] == 'state::State::build0'
                why = {'state::State::next_token': 'the fetch point', 'state::State::next_name':
                       'reviewed exception: a missing name points back at the defining word', }.get(fn, 'the build-error recorder takes the token of record' if ok else '%s overwrites the token of record' % short(fn))
                rep.add('C17.R2', 'C17.R2:last_token-writer:%s' % fn, ok, why, fn, w['at'], nontrivial=False)

    # ---------- R3
    far = fx.need('state::State::fetch_and_run')
    ipw = {bb for bb, t in far.calls() if callee_of(t) in ('state::State::set_ip', 'state::State::next_ip')}
    errs = {bb for (bb, i, cls, d) in return_defs(far) if cls == 'err'}
    bad = None
    for b in ipw:
        after = blocks_after(far, b)
        if after & errs:
            bad = b
    rep.add('C17.R3', 'C17.R3:fetch_and_run:ip-unchanged-on-error', bad is None,
            'no Err return of fetch_and_run is reachable after an ip write: a failing instruction leaves ip pointing at itself' if bad is None else
            'an Err return is reachable after the ip write in bb%d: the location lookup uses the wrong debug_map entry' % bad, far.name, far.j['span'])
    from .. import inline, stepfx
    V = inline.View(fx)
    for fn in ('state::State::run', 'state::State::next'):
        fx.need(fn)
        f = V(fn)
        recorded, prop, how = stepfx.step_error_recorded(fx, f)
        ok = recorded and prop
        rep.add('C17.R3', 'C17.R3:%s:error-exit-records-location' % fn, ok,
                'a failing step is recorded (%s) before its error is propagated' % how if ok else
                '%s %s' % (short(fn), 'propagates a step error without recording its location' if not recorded else 'does not propagate the step error'),
                fn, f.j['span'])
    # "the first recorded location wins" is right only within one drive: each function that steps the machine (or builds a
    # source) forgets the previous failure before its first step, otherwise a later failure keeps the older location
    clearers = {fn for fn, ws in W0.items() for w in ws if w['field'][0] == 'last_error' and w['how'] == 'assign' and len(w['field']) == 1
                and 'ErrorContext' not in expr_str(fx.fns[fn].expr_of_rvalue(w['stmt']['rv'], 0, frozenset()), -20)} if True else set()
    for fn, stepper in (('state::State::run', 'state::State::fetch_and_run'), ('state::State::next', 'state::State::fetch_and_run'),
                        ('state::State::build0', 'state::State::build1')):
        f = V(fn)
        steps = [bb for bb, t in f.calls() if callee_of(t) == stepper]
        clears = {bb for bb, t in f.calls() if callee_of(t) in clearers}
        for w in awrite.field_writes(fx, f, tracked):
            if w['field'][0] == 'last_error' and w['how'] == 'assign' and len(w['field']) == 1 and w.get('stmt') and \
                    'ErrorContext' not in expr_str(f.expr_of_rvalue(w['stmt']['rv'], 0, frozenset()), -20):
                clears.add(w['bb'])
        okc = bool(steps) and all(any(f.dominates(c, sb) for c in clears) for sb in steps)
        rep.add('C17.R3', 'C17.R3:%s:forgets-the-previous-failure-first' % fn, okc,
                'last_error is cleared on every path to the first step' if okc else
                '%s steps without clearing last_error first: the first recorded location wins, so a failure after an earlier one is reported '
                'with the earlier location and message' % short(fn), fn, f.j['span'])
    sre = fx.need('state::State::set_runtime_err_location')
    loc = 'state::State::location_from_current_ip' in fx.reachable_from([sre.name])
    lf = fx.need('state::State::location_from_current_ip')
    s0 = expr_str(lf.expr_of_local(0), -20)
    okloc = loc and 'debug_map' in s0 and ('State::ip' in s0 or 'ctx.ip' in s0)
    rep.add('C17.R3', 'C17.R3:set_runtime_err_location:reads-debug_map-at-ip', okloc,
            'location = token_location(debug_map[ip])' if okloc else 'run-time location is not looked up in debug_map at the current ip', sre.name, sre.j['span'])
    # every store of an error context into last_error happens only if none is recorded yet
    n_rec = 0
    rec_fns = set()
    for fn, ws in sorted(W.items()):
        f = V(fn)
        for w in ws:
            if w['field'][0] != 'last_error' or w['how'] != 'assign' or len(w['field']) > 1:
                continue
            val = expr_str(f.expr_of_rvalue(w['stmt']['rv'], 0, frozenset()), -20)
            if 'ErrorContext' not in val:
                continue          # clearing (None) is not a recording
            n_rec += 1
            rec_fns.add(fn)
            guarded = False
            for (b2, e, side) in edge_guards(f, w['bb']):
                if isinstance(e, tuple) and e[0] == 'call' and 'last_error' in expr_str(e, -20):
                    if (e[1].endswith('::is_none') and side) or (e[1].endswith('::is_some') and not side):
                        guarded = True
            rep.add('C17.R3', 'C17.R3:%s:first-location-wins' % fn, guarded,
                    'last_error is written only when none is recorded yet (the innermost location is kept)' if guarded else
                    '%s overwrites an already recorded error location: a run-time failure inside a meta block / immediate word is re-attributed to the last token fetched'
                    % short(fn), fn, w['at'])
    rep.floor('C17.R3 error recorders', n_rec, 2)
    # build0: every error of build1 passes the build-error recorder before it is returned
    fx.need('state::State::build0')
    b0 = V('state::State::build0')
    w0 = W.get('state::State::build0', [])
    rec_blocks = {w['bb'] for w in w0 if w['field'][0] == 'last_error' and w['how'] == 'assign' and
                  'ErrorContext' in expr_str(b0.expr_of_rvalue(w['stmt']['rv'], 0, frozenset()), -20)}
    # "an error is already recorded" counts as recorded: the first location wins
    for b2 in b0.reachable_blocks():
        br = bool_branch(b0, b2)
        if br and isinstance(br[0], tuple) and br[0][0] == 'call' and 'last_error' in expr_str(br[0], -20):
            if br[0][1].endswith('::is_some'):
                rec_blocks.add(br[1])
            elif br[0][1].endswith('::is_none'):
                rec_blocks.add(br[2])
    recorded, prop, how = stepfx.step_error_recorded(fx, b0, step='state::State::build1', recorder='-', recorder_blocks=rec_blocks,
                                                     closure_records=lambda g: g in rec_fns)
    okb = recorded and prop
    rep.add('C17.R3', 'C17.R3:build0:every-error-passes-mapper', okb,
            'every Err of build1 is recorded (%s) and then returned' % how if okb else
            'build0 %s' % ('returns an error of build1 that was not recorded' if not recorded else 'does not return the error of build1'),
            'state::State::build0', b0.j['span'])

    # ---------- R4
    tl = fx.need('lex::token_location')
    loops = natural_loops(tl)
    drivers = set()
    for h, body, tail in loops:
        for b in body:
            t = tl.blocks[b]['term']
            if t['k'] == 'call':
                c = callee_of(t) or ''
                if c.endswith('::next') and 'Iterator' in c:
                    drivers.add(c)
    chars = [d for d in drivers if 'core::str::iter::Char' in d]
    other = [d for d in drivers if d not in chars]
    # line and column are COUNTS of what the character iterator yielded (0, +1 per step); a difference of byte offsets
    # (`tok_start - start`) is a column only for ASCII text
    pass
    adt = fx.adts.get('lex::TokenLocation') or {}
    fields = [fl['name'] for v in adt.get('variants', [])[:1] for fl in v['fields']]
    n_cnt = 0
    for (bb0, i0, kind0, payload) in tl.defs().get(0, []):
        if kind0 != 'assign':
            continue
        e0 = tl.expr_of_rvalue(payload, 0, frozenset())
        for x in expr_walk(e0):
            if isinstance(x, tuple) and x[0] == 'agg' and x[1] == 'lex::TokenLocation' and len(x[3]) == len(fields):
                for nm in ('line', 'col'):
                    if nm not in fields:
                        continue
                    v = zstrip(x[3][fields.index(nm)])
                    n_cnt += 1
                    okc = _plain_count(v)
                    rep.add('C17.R4', 'C17.R4:token_location:%s-is-a-count' % nm, okc,
                            '%s starts at a constant and grows by one per character / line end seen' % nm if okc else
                            'TokenLocation.%s is %s: not a count of characters seen by the scan (a byte distance is a column only in ASCII text)'
                            % (nm, expr_str(v, -8)[:80]), tl.name, tl.j['span'])
    rep.floor('C17.R4 line/col fields of the reported location', n_cnt, 2)
    rep.add('C17.R4', 'C17.R4:token_location:scan-walks-characters', bool(chars) and not other,
            'line/column loop is driven by %s' % short(chars[0]) if chars and not other else
            'the line/column scan is driven by %s: columns are not counted in characters' % [short(d) for d in other] or 'no loop', tl.name, tl.j['span'])

# as-built addendum
EXPLANATION += ' As built (DESIGN 9.2): R1 also: no map entry is rewritten when an instruction is patched. R2 also: source texts live as long as code compiled from them; the source of a token is found by buffer identity; a buffer is registered once; the registry cut at the close of a meta block spares buffers a pending input still reads. R3 also: every drive function forgets the previous failure before its first step. R4 also: line/column are plain counts.'
