"""C04 — bit-string operations depend only on the bit sequence (structural part).

R1 operands are never modified; R2 buffer writes land on storage that holds
nothing but this value (normalisation dominates length-relative and
accumulating writes)."""
from ..core import callee_of, expr_walk, expr_str, short, op_place, MissingAnchor, unwrap_value
from .. import awrite
from ..pathq import bool_branch, cmp_of

EXPLANATION = (
    "Equality of every operation's result with a reference bit-sequence model is value-level and not decided (alignment "
    "arithmetic of cut_bits/Iter8/to_uint/eq_with/hex export). Two clauses are structural and decided from MIR. R1 (operands "
    "are never modified): the only mutable access to a backing buffer is Bitstr::data_mut, which goes through Rc::make_mut + "
    "Cow::to_mut (a shared or borrowed buffer is copied first); every caller of data_mut owns its receiver by value; no "
    "&self method reaches data_mut; the range of a borrowed receiver is written only by `read`. R2 (storage history cannot "
    "leak into results): two kinds of buffer write are only correct on a buffer normalised to the value - length-relative "
    "writes (extend_from_slice / push / resize*, 'append at len') and accumulating writes (data[i] |= ..). Every such write "
    "through data_mut must be dominated, in the same function, by Vec::truncate(upper_bound_index(range.end)) and by a mask of "
    "the tail bits of the last byte that is guarded only by `end % 8 > 0` - or act on a buffer built fresh in that function. "
    "XOR writes inside the range (invert) need no normalisation.")
RULE_TEXT = ("instances = callers of data_mut (receiver ownership), &self methods (reachability of data_mut), range "
             "writers, each length-relative / accumulating buffer write (dominating normalisation); non-trivial = "
             "dominance + provenance")
ASSUMPTIONS = ["rustc MIR / Instance resolution correct", "Rc::make_mut / Cow::to_mut copy a shared / borrowed buffer (std contract)"]

DM = 'bitstr::Bitstr::data_mut'
LEN_RELATIVE = ('extend_from_slice', 'push', 'resize', 'resize_with', 'append', 'extend', 'insert')


def run(rep, facts, tier):
    fx = facts['dev']
    rep.rule('C04.R1', 'operands are never modified: buffer mutation only through data_mut (COW) on an owned receiver; range of a borrowed receiver written only by read')
    rep.rule('C04.R2', 'length-relative and accumulating buffer writes are dominated by normalisation of the buffer to the value')
    rep.rule('C04.R3', 'who reads raw buffer bytes: only the two re-aligning iterators (bit iterator, iter8/cut_bits) and slice() behind its alignment test; the number decoders read through iter8')
    rep.rule('C04.R4', 'positions handed to the public methods are relative to the value: a range bound computed from a position argument adds range.start')
    check_raw_readers(rep, fx)
    check_relative_positions(rep, fx)
    dm = fx.need(DM)
    # ---------- R1
    from .. import inline, stepfx
    V = inline.View(fx)       # private helpers that no rule names are looked through (a `&mut self` step of an owning function)

    def helper(fn):
        return V.transparent(fn) and bool(fx.callers().get(fn))
    callers = sorted(stepfx.callers_seen_through(fx, V, DM))
    rep.floor('C04.R1 callers of data_mut', len(callers), 2)
    for fn in callers:
        f = V(fn)
        recv = f.local_ty(1) if f.argc >= 1 else '?'
        owned = recv == 'bitstr::Bitstr'
        # the data_mut receiver is (a borrow of) that owned self or of an owned local of type Bitstr
        ok = True
        why = 'receiver owned by value (%s)' % recv
        for bb, t in f.calls():
            if callee_of(t) == DM:
                e = f.expr_of_operand(t['args'][0])
                base = e
                while isinstance(base, tuple) and base[0] in ('ref', 'cast'):
                    base = base[2]
                while isinstance(base, tuple) and base[0] == 'proj' and all(p == '*' for p in base[2]):
                    base = base[1]
                    while isinstance(base, tuple) and base[0] in ('ref', 'cast'):
                        base = base[2]
                l = base[1] if isinstance(base, tuple) and base[0] in ('arg', 'undef', 'cycle') else None
                lty = f.local_ty(l) if l is not None else None
                if lty != 'bitstr::Bitstr':
                    # an owned local initialised from a call (detach result) is fine too
                    lt2 = None
                    pl = op_place(t['args'][0])
                    if pl is not None:
                        for (b0, i0, kind, payload) in f.defs().get(pl['l'], []):
                            if kind == 'assign' and payload['k'] == 'ref':
                                lt2 = f.local_ty(payload['p']['l']) if not payload['p']['p'] else None
                    if lt2 != 'bitstr::Bitstr':
                        ok = False
                        why = '%s calls data_mut on a receiver it does not own (%s): the caller\'s operand is modified' % (short(fn), lty or lt2 or expr_str(e)[:40])
        rep.add('C04.R1', 'C04.R1:data_mut-caller:%s' % fn, ok, why, fn, f.j['span'])
    # &self / &mut self methods must not reach data_mut
    n_ref = 0
    for fn in sorted(fx.fns):
        if not fn.startswith('bitstr::Bitstr::') or '{closure' in fn:
            continue
        f = fx.fns[fn]
        if f.argc < 1:
            continue
        recv = f.local_ty(1)
        if recv in ('&bitstr::Bitstr', '&mut bitstr::Bitstr') and fn != DM:
            if helper(fn) and f.j.get('vis') != 'pub':
                continue      # a private helper is judged where it is used: the receiver chain is resolved in the caller's view
            n_ref += 1
            reach = fx.reachable_from([fn])
            ok = DM not in reach
            rep.add('C04.R1', 'C04.R1:borrowed-receiver:%s' % fn, ok, 'does not reach data_mut' if ok else
                    '%s takes %s and reaches data_mut: it mutates the buffer of a value the caller still holds' % (short(fn), recv), fn, f.j['span'],
                    nontrivial=False)
    rep.floor('C04.R1 methods with a borrowed receiver', n_ref, 20)
    # data_mut is COW
    s0 = expr_str(dm.expr_of_local(0), -20)
    okd = 'make_mut' in s0 and 'to_mut' in s0
    rep.add('C04.R1', 'C04.R1:data_mut:copy-on-write', okd, 'Rc::make_mut(&mut self.data).to_mut()' if okd else 'data_mut is not make_mut + to_mut: %s' % s0[:80],
            DM, dm.j['span'])
    # writers of range through a borrowed receiver
    tr = {'bitstr::Bitstr': {'range', 'data'}}
    W = awrite.all_field_writes(fx, 'bitstr', tr)
    for fn, ws in sorted(W.items()):
        f = fx.fns[fn]
        for w in ws:
            if w['field'][0] != 'range':
                continue
            # which local is written?
            st = w.get('stmt')
            base_l = st['lhs']['l'] if st is not None else None
            bty = f.local_ty(base_l) if base_l is not None else '?'
            if bty.startswith('&mut') or bty.startswith('&'):
                ok = fn == 'bitstr::Bitstr::read'
                rep.add('C04.R1', 'C04.R1:range-of-borrowed:%s' % fn, ok, 'read() advances the cursor of its &mut self by design' if ok else
                        '%s writes the range of a borrowed bit-string' % short(fn), fn, w['at'])

    # ---------- R2
    n_w = 0
    for fn in callers:
        f = V(fn)
        dom = f.dominators()
        dm_calls = [bb for bb, t in f.calls() if callee_of(t) == DM]
        writes = []   # (bb, kind, at)
        for bb, t in f.calls():
            c = callee_of(t) or ''
            if c.startswith('alloc::vec::Vec') and c.split('::')[-1] in LEN_RELATIVE and t['args']:
                e = expr_str(f.expr_of_operand(t['args'][0]), -20)
                if 'data_mut' in e:
                    writes.append((bb, 'length-relative ' + c.split('::')[-1], t.get('at')))
        for bb in f.reachable_blocks():
            for i, st in enumerate(f.blocks[bb]['stmts']):
                if st['k'] == 'assign' and st['lhs']['p'] and st['rv']['k'] == 'bin' and st['rv']['op'] == 'BitOr':
                    e = expr_str(f.expr_of_place(st['lhs']), -20)
                    if 'data_mut' in e:
                        writes.append((bb, 'accumulating |=', st.get('at')))
        if not writes:
            continue
        # normalisation events
        truncs = []
        for bb, t in f.calls():
            c = callee_of(t) or ''
            if c == 'alloc::vec::Vec::<T, A>::truncate':
                e0 = expr_str(f.expr_of_operand(t['args'][0]), -20)
                e1 = expr_str(f.expr_of_operand(t['args'][1]), -20)
                if 'data_mut' in e0 and 'upper_bound_index' in e1 and 'range.end' in e1:
                    truncs.append(bb)
        masks = []
        for bb in f.reachable_blocks():
            for i, st in enumerate(f.blocks[bb]['stmts']):
                if st['k'] == 'assign' and st['lhs']['p'] and st['rv']['k'] == 'bin' and st['rv']['op'] == 'BitAnd':
                    e = expr_str(f.expr_of_place(st['lhs']), -20)
                    if 'data_mut' in e:
                        masks.append(bb)
        # guard of the mask: only `end % 8 > 0`
        mask_ok = False
        mask_why = 'no tail-bit mask (data[last] &= ..) found'
        for mb in masks:
            guards = []
            for b2 in f.reachable_blocks():
                br = bool_branch(f, b2)
                if br is None:
                    continue
                e, tbb, fbb = br
                if (tbb in dom.get(mb, ())) != (fbb in dom.get(mb, ())):
                    guards.append(expr_str(e, -10))
                elif br and isinstance(e, tuple) and e[0] == 'call':
                    pass
            extra = [g for g in guards if not ('Rem(' in g and 'range.end' in g and g.startswith('Gt('))]
            if not extra and guards:
                mask_ok = True
                mask_why = 'tail mask guarded only by end % 8 > 0'
            else:
                mask_why = 'the tail-bit mask is skipped under a further condition (%s): stale bits of the last byte survive' % (extra or 'no guard found')
        for (wb, kind, at) in writes:
            n_w += 1
            t_ok = any(tb in dom.get(wb, ()) and _unconditional(f, tb, dom) for tb in truncs)
            m_ok = mask_ok and any(_join_after(f, mb, wb, dom) for mb in masks)
            ok = t_ok and m_ok
            rep.add('C04.R2', 'C04.R2:%s:%s' % (fn, kind), ok,
                    'dominated by truncate(upper_bound_index(range.end)) and the tail-bit mask' if ok else
                    '%s in %s is not preceded on every path by a normalisation of the buffer (truncate dominates=%s; %s): bytes or bits that lie '
                    'beyond the value in a uniquely owned buffer end up in the result' % (kind, short(fn), t_ok, mask_why), fn, at)
    rep.floor('C04.R2 length-relative / accumulating writes', n_w, 3)


RAW_READERS = {
    'bitstr::Bitstr::data_mut': 'the copy-on-write point (R1)',
    '<bitstr::Bitstr as core::clone::Clone>::clone': 'shares the buffer, reads no byte',
    'bitstr::Bitstr::detach': 'reads the reference count only (C03.R7)',
    'bitstr::Bitstr::slice': '@aligned',
    "<bitstr::Bits<'a> as core::iter::traits::iterator::Iterator>::next": 'bit-addressed: data[pos / 8] masked by pos % 8',
    "<bitstr::Iter8<'a> as core::iter::traits::iterator::Iterator>::next": '@cut_bits',
}


def _reads_buffer(f):
    """statements / call operands of f that name the field `data` of a Bitstr (directly or through the `bs` of an iterator)"""
    hits = []

    def visit(j, at):
        if isinstance(j, dict):
            if 'l' in j and 'p' in j and isinstance(j['l'], int):
                names = [x.get('f') if isinstance(x, dict) else x for x in j['p']]
                if 'data' in names:
                    i = names.index('data')
                    adt = f.locals[j['l']].get('adt', '') if j['l'] < len(f.locals) else ''
                    before = [n for n in names[:i] if n != '*']
                    if (adt == 'bitstr::Bitstr' and not before) or (before and before[-1] == 'bs'):
                        hits.append(at)
                return
            for v in j.values():
                visit(v, at)
        elif isinstance(j, list):
            for v in j:
                visit(v, at)
    for bb in f.reachable_blocks():
        for st in f.blocks[bb]['stmts']:
            if st['k'] == 'assign' and st['rv']['k'] == 'agg':
                continue      # constructing a Bitstr is not a read
            visit(st, (bb, st.get('at')))
        visit(f.blocks[bb]['term'], (bb, f.blocks[bb]['term'].get('at')))
    return hits


def check_raw_readers(rep, fx):
    from .c13 import _only_called_by
    from .c08 import guard_facts
    from ..zone import strip as zstrip
    n = 0
    for fn in sorted(fx.fns):
        if 'bitstr::' not in fn or fn.startswith('bitstr_ext::') or 'BitvecBuilder' in fn:
            continue
        f = fx.fns[fn]
        hits = _reads_buffer(f)
        if not hits:
            continue
        n += 1
        key = 'C04.R3:raw-reader:%s' % fn
        how = RAW_READERS.get(fn)
        if how is None:
            via = _only_called_by(fx, fn, RAW_READERS, set())
            ok = via is not None
            rep.add('C04.R3', key, ok, 'helper called only by %s' % ', '.join(short(v) for v in via) if ok else
                    '%s reads the bytes of the backing buffer itself: whole bytes are only meaningful for a value that starts and ends on a byte '
                    'boundary, and bits outside the range belong to other values (or are stale)' % short(fn), fn, hits[0][1])
            continue
        if how == '@aligned':
            # every read is behind start % 8 == 0 and is_bytestr()
            ok = True
            for (bb, at) in hits:
                fs = guard_facts(f, bb)
                al = any(op == 'Eq' and 'Rem(' in expr_str(zstrip(a), -10) and expr_str(zstrip(b), -10) == '0' and 'start' in expr_str(zstrip(a), -10)
                         for (op, a, b) in fs if op == 'Eq')
                by = any(str(op).startswith('Call:') and 'is_bytestr' in str(op) and b is True for (op, a, b) in fs) or \
                    any(str(op).startswith('Call:') and 'is_u8_slice' in str(op) and b is True for (op, a, b) in fs)
                al = al or any(str(op).startswith('Call:') and 'is_u8_slice' in str(op) and b is True for (op, a, b) in fs)
                if not (al and by):
                    ok = False
            rep.add('C04.R3', key, ok, 'whole bytes handed out only when start % 8 == 0 and the length is a whole number of bytes' if ok else
                    '%s hands out raw bytes without both alignment tests (start % 8 == 0 and whole-byte length)' % short(fn), fn, hits[0][1])
        elif how == '@cut_bits':
            cuts = [t for _, t in f.calls() if callee_of(t) == 'bitstr::cut_bits']
            ok = bool(cuts) and all(('.data' in expr_str(f.expr_of_operand(t['args'][0]), -30) or 'bytes_range' in expr_str(f.expr_of_operand(t['args'][0]), -30)
                                     or 'Index' in expr_str(f.expr_of_operand(t['args'][0]), -30)) for t in cuts)
            rep.add('C04.R3', key, ok, 'every byte read goes through cut_bits(byte, pos, end)' if ok else
                    '%s reads buffer bytes that do not pass through cut_bits' % short(fn), fn, hits[0][1])
        else:
            rep.add('C04.R3', key, True, how, fn, hits[0][1], nontrivial=False)
    rep.floor('C04.R3 functions naming the buffer', n, 5)
    # slice() answers None for a value that does not sit on byte boundaries of its buffer - a fact about storage.  A caller
    # may use it as a fast path, never as a verdict: turning that None into an error makes an operation fail for one of two
    # equal values (the copying path bytestr() / iter8 serves both)
    n_s = 0
    for fn in sorted(fx.fns):
        f = fx.fns[fn]
        for bb, t in f.calls():
            c = callee_of(t) or ''
            if not (c.endswith('::ok_or_else') or c.endswith('::ok_or') or c.endswith('Option::<T>::expect')) or not t['args']:
                continue
            e = f.expr_of_operand(t['args'][0])
            if not any(isinstance(x, tuple) and x[0] == 'call' and x[1] == 'bitstr::Bitstr::slice' for x in expr_walk(e)):
                continue
            n_s += 1
            fs = guard_facts(f, bb)
            guarded = any(str(op).startswith('Call:') and 'is_u8_slice' in str(op) and b is True for (op, a, b) in fs)
            rep.add('C04.R3', 'C04.R3:slice-none-is-an-error:%s' % fn, guarded,
                    'only under is_u8_slice()' if guarded else
                    '%s turns `slice() == None` into an error: the operation works for a value that happens to be byte-aligned in its '
                    'buffer and fails for an equal value that is not (`|0aabbcc| open-bitstr 4 bits drop |bb| find`)' % short(fn), fn, t.get('at'))
    rep.add('C04.R3', 'C04.R3:slice-none-callers-counted', True, '%d places map slice() == None to an error' % n_s, None, None, nontrivial=False)


def check_relative_positions(rep, fx):
    """`x.seek(8)` must skip 8 bits of x whether x starts at bit 0 of its buffer or at bit 8 of somebody else's.  In every
    public method of Bitstr, a new range bound that depends on a usize parameter must also depend on the value's own start
    (start + n); a bound that is the parameter itself is a position inside the backing buffer."""
    tr = {'bitstr::Bitstr': {'range'}}
    n = 0
    from .. import inline as _inl
    Vrel = _inl.View(fx)
    for fn in sorted(fx.fns):
        if not fn.startswith('bitstr::Bitstr::') or '{closure' in fn:
            continue
        f0 = fx.fns[fn]
        if f0.j.get('vis') != 'pub':
            continue
        f = Vrel(fn)          # private helpers (`abs_pos`, `with_range`) are looked through
        params = [k for k in range(2, f0.argc + 1) if f0.local_ty(k) == 'usize']
        if not params:
            continue
        bad = []
        seen = False
        for bb in f.reachable_blocks():
            for st in f.blocks[bb]['stmts']:
                if st['k'] != 'assign' or not st['lhs']['p']:
                    continue
                names = [x.get('f') if isinstance(x, dict) else x for x in st['lhs']['p']]
                if 'range' not in names:
                    continue
                e = f.expr_of_rvalue(st['rv'], 0, frozenset())
                args = {x[1] for x in expr_walk(e) if isinstance(x, tuple) and x[0] == 'arg' and x[1] in params}
                if not args:
                    continue
                seen = True
                txt = expr_str(e, -20)
                relative = ('range.start' in txt or 'Bitstr::start' in txt) and ('Add' in txt or 'checked_add' in txt)
                if not relative:
                    bad.append(txt[:50])
        # ... and a test never compares a position argument as it is (relative to the value) with where the value sits in its
        # buffer (range.start / range.end / start() / end()): the two count from different origins
        from ..pathq import bool_branch as _bb, cmp_of as _cmp
        mixed = []
        for bb in f.reachable_blocks():
            br = _bb(f, bb)
            c = _cmp(br[0]) if br else None
            if c is None:
                continue
            _op, a, b, _neg = c

            def _kind(e):
                t = expr_str(e, -20)
                has_arg = any(isinstance(x, tuple) and x[0] == 'arg' and x[1] in params for x in expr_walk(e))
                absolute = any(k in t for k in ('range.end', 'range.start', 'Bitstr::end(', 'Bitstr::start('))
                length = 'Bitstr::len(' in t or ('range.end' in t and 'range.start' in t and 'Sub' in t)
                if has_arg and not absolute:
                    return 'rel'
                if absolute and not length:
                    return 'abs'
                return 'other'
            if {_kind(a), _kind(b)} == {'rel', 'abs'}:
                mixed.append('%s vs %s' % (expr_str(a, -6)[:30], expr_str(b, -6)[:30]))
        if mixed:
            seen = True
        if not seen:
            continue
        n += 1
        if mixed:
            rep.add('C04.R4', 'C04.R4:position-compared-with-buffer-offset:%s' % fn, False,
                    '%s compares a position argument, which counts from the start of the value, with an offset into the backing buffer (%s): the '
                    'bound is too generous by the value\'s own start, so a value cut from a larger one answers differently from an equal value '
                    'that starts at bit 0' % (short(fn), mixed[0]), fn, f.j['span'])
        rep.add('C04.R4', 'C04.R4:absolute-position:%s' % fn, not bad,
                'range bounds are start + argument' if not bad else
                '%s stores its position argument as a range bound as it is (%s): the position is an offset into the backing buffer, so the '
                'method answers differently for two equal values that start at different bits' % (short(fn), bad[0]), fn, f.j['span'])
    rep.floor('C04.R4 public methods that move a range bound by an argument', n, 4)
    # the other direction: where a value sits in its buffer is known to this module only.  Nobody else asks for start() / end() /
    # the raw ranges - a position computed from them (an error text, a cursor, a dump label) differs between equal values
    ABS = ('bitstr::Bitstr::start', 'bitstr::Bitstr::end', 'bitstr::Bitstr::bits_range', 'bitstr::Bitstr::bytes_range')
    outside = []
    n_abs = 0
    for fn in sorted(fx.fns):
        f = fx.fns[fn]
        inside = fn.startswith('bitstr::') or fn.startswith('<bitstr::')
        for bb, t in f.calls():
            if callee_of(t) in ABS:
                n_abs += 1
                if not inside:
                    outside.append((fn, short(callee_of(t)), t.get('at')))
    for fn, c, at in outside:
        rep.add('C04.R4', 'C04.R4:buffer-position-leaves-the-module:%s' % fn, False,
                '%s asks for %s, the position of a value inside its backing buffer: what it computes from it differs between equal values '
                '(a literal and the same bits cut out of a longer input)' % (short(fn), c), fn, at)
    rep.add('C04.R4', 'C04.R4:buffer-positions-stay-inside-the-module', not outside,
            '%d uses of start() / end() / raw ranges, all inside bitstr.rs' % n_abs if not outside else '%d uses outside bitstr.rs' % len(outside),
            'bitstr::Bitstr::start', None, nontrivial=False)
    rep.floor('C04.R4 uses of the absolute position accessors', n_abs, 4)
    # byte export through the host API: xeh_bitstr_bytes can only lend out bytes of the value's own buffer (slice(), C03.R6), so a
    # cell that reaches C has to own byte-aligned storage - wherever the API boxes a cell, a misaligned bit-string in it has been
    # replaced by a detached copy on the way
    from .. import inline
    from .c08 import type_of_operand
    from ..pathq import blocks_after
    n_box = 0
    DET = 'bitstr::Bitstr::detach'
    detachers = {fn for fn in fx.fns if DET in fx.reachable_from([fn])} | {DET}       # functions through which a detached copy can be made
    boxers = {}        # functions of the API (and their private helpers) that box a Cell
    for fn in sorted(fx.fns):
        if not fn.startswith('c_api::'):
            continue
        f = fx.fns[fn]
        for bb, t in f.calls():
            if (callee_of(t) or '') == 'alloc::boxed::Box::<T>::new' and 'cell::Cell' == type_of_operand(f, t['args'][0]).strip():
                boxers.setdefault(fn, []).append((bb, t))
    for fn, sites in sorted(boxers.items()):
        f = fx.fns[fn]
        before = set()
        for bb, t in f.calls():
            if callee_of(t) in detachers:
                before |= blocks_after(f, bb) | {bb}
        for bb, t in sites:
            n_box += 1
            okb = bb in before
            rep.add('C04.R3', 'C04.R3:%s:cell-for-C-owns-aligned-storage' % fn, okb,
                    'a bit-string that does not sit on byte boundaries of its buffer is detached before the cell is boxed' if okb else
                    '%s boxes a cell for C as it is: the bytes of a whole-byte bit-string that starts inside a byte of its buffer cannot be lent '
                    'out (NULL), those of the equal literal can' % short(fn), fn, t.get('at'))
    rep.floor('C04.R3 cells boxed for C', n_box, 1)


def _unconditional(f, bb, dom):
    """block bb executes on every path from entry to a normal return (post-dominates entry)"""
    pd = f.postdominators()
    return 0 in pd and bb in pd[0]


def _join_after(f, mask_bb, write_bb, dom):
    """the branch that contains the mask is taken/skipped before the write: its guard block dominates the write"""
    for b2 in f.reachable_blocks():
        br = bool_branch(f, b2)
        if br and (br[1] in dom.get(mask_bb, ())) and b2 in dom.get(write_bb, ()):
            return True
    return False

# as-built addendum
EXPLANATION += ' As built (DESIGN 9.2): R3: who reads raw buffer bytes (bit iterator, iter8/cut_bits, slice() behind both alignment tests; the number decoders read through iter8; a cell boxed for C owns byte-aligned storage). R4: positions handed to public methods are relative to the value; start()/end()/raw ranges are used inside bitstr.rs only. R4 also: no test compares a position argument as it is with an offset into the backing buffer.'
