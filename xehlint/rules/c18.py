"""C18 — text encodings of binary data round-trip (thin claim).

R1 encoder and decoder of a pair use the same codec constant; R2 encoders take
their input through into_bitstr + bytestr; R3 invalid text yields nil."""
from ..core import callee_of, expr_walk, expr_str, return_defs, short, const_str, MissingAnchor, simplify
from ..pathq import blocks_after as blocks_after_
from .. import inline

_V = [None]
BYTESTR = 'bitstr::Bitstr::bytestr'      # named in full: stays opaque in views

EXPLANATION = (
    "The round trip of the data is a property of the base32/base64/z85 crates (trusted, not analysed). The wrappers can "
    "break it in three structural ways, each decided from MIR: R1 for every registry pair X / X> the library calls "
    "reached by the two words (through the local helpers, with the constant alphabet/engine argument substituted along "
    "the call) belong to the same crate, are encode vs decode, and carry the same codec constant (variant and padding "
    "field for base32::Alphabet; the same general_purpose engine constant for base64); R2 every encoder obtains its bytes "
    "from bitstr_ext::into_bitstr (the function `>bitstr` wraps) followed by Bitstr::bytestr with None mapped to "
    "ToBytestrError and no other conversion path; R3 in every decoder the failure value of the library call reaches "
    "push_data(NIL) and an Ok return. Thin: the byte-level round trip, including the copying path of bytestr for "
    "unaligned inputs, is value-level and not decided.")
RULE_TEXT = ("instances = 4 codec pairs x (crate, direction, constant), 4 encoders x input path, 4 decoders x failure path; "
             "non-trivial = needed inter-procedural constant substitution or path search")
ASSUMPTIONS = ["base32 0.4 / base64 0.21 / z85 3.0 encode/decode are mutual inverses for equal alphabets (trusted base)",
               "rustc MIR / Instance resolution correct"]

LIBS = ('base32::', 'base64::', 'z85::')


from ..core import expr_subst_args as subst



_TEXT_IDENTITY = ('::deref', '::to_string', '::to_owned', '::clone', '::as_str', '::as_ref', '::borrow', '::from', '::into', 'Try>::branch',
                  'cell::Cell::to_xstr', 'state::State::pop_data', '::value', '::as_bytes')


def _phi_alts(e, cap=32):
    """the alternatives a value can be: phi nodes opened wherever they stand (a call of alternatives is the alternatives of the call)"""
    import itertools
    if not isinstance(e, tuple) or not e:
        return [e]
    if e[0] == 'phi':
        out = []
        for a in e[1:]:
            for x in (a if isinstance(a, (list, tuple)) and a and not isinstance(a[0], str) else [a]):
                out += _phi_alts(x, cap)
        return out[:cap]
    if e[0] == 'ref' and len(e) == 3:
        return [('ref', e[1], x) for x in _phi_alts(e[2], cap)]
    if e[0] == 'proj' and len(e) >= 2:
        return [('proj', x) + tuple(e[2:]) for x in _phi_alts(e[1], cap)]
    if e[0] == 'call' and len(e) >= 3 and isinstance(e[2], tuple):
        per = [_phi_alts(a, cap) for a in e[2]]
        combos = list(itertools.islice(itertools.product(*per), cap))
        return [('call', e[1], tuple(c)) + tuple(e[3:]) for c in combos]
    return [e]


def _is_padding_trim(x):
    """trim_end_matches('=') / trim_matches('='): dropping the padding is not a mapping of the text's characters"""
    return x[1].endswith(('::trim_end_matches', '::trim_matches')) and len(x[2]) == 2 and isinstance(x[2][1], tuple) \
        and x[2][1][0] == 'const' and isinstance(x[2][1][1], dict) and x[2][1][1].get('v') == 61


def _text_as_read(e):
    """e is the popped text itself: only conversions between string types stand between Cell::to_xstr and e"""
    calls = [x[1] for x in expr_walk(e) if isinstance(x, tuple) and x and x[0] == 'call' and not _is_padding_trim(x)]
    return any(c == 'cell::Cell::to_xstr' for c in calls) and all(any(c.endswith(t) for t in _TEXT_IDENTITY) for c in calls) \
        and not any(isinstance(x, tuple) and x and x[0] == 'closure' for x in expr_walk(e))


def lib_calls(fx, fn, actuals=None, depth=0, seen=()):
    """list of (lib callee, [arg exprs with constants substituted]) reached from fn through base_ext helpers"""
    f = _V[0](fn) if _V[0] is not None and fn in fx.fns else fx.fns.get(fn)
    out = []
    if f is None or depth > 4 or fn in seen:
        return out
    spliced = set(getattr(f, 'inlined', []))
    for bb, t in f.calls():
        c = callee_of(t)
        if c is None:
            continue
        args = [simplify(f.expr_of_operand(a)) for a in t['args']]
        if actuals is not None:
            args = [subst(a, actuals) for a in args]
        unres = t['func'].get('c', {}).get('fn', '')
        if c.startswith(LIBS) or unres.startswith(LIBS) or any(l in c for l in ('<base64::', 'base64::engine')):
            out.append((c, unres, args, fn, t.get('at')))
        elif c in fx.fns and (c.startswith('base_ext::')):
            out.extend(lib_calls(fx, c, args, depth + 1, seen + (fn,)))
    # closures written inside this function (passed to helpers / map / ok_or_else)
    for c in sorted(fx.callgraph().get(fn, ())):
        if c.startswith(fn + '::{closure') and c in fx.fns and c not in spliced:
            out.extend(lib_calls(fx, c, None, depth + 1, seen + (fn,)))
    return out


def codec_const(args):
    """a printable identity of the alphabet / engine constants among the args"""
    out = []
    for a in args:
        for x in expr_walk(a):
            if isinstance(x, tuple) and x[0] == 'agg' and 'Alphabet' in str(x[1]):
                fields = ','.join(const_str(y[1]) if isinstance(y, tuple) and y[0] == 'const' else expr_str(y) for y in x[3])
                out.append('%s::%s{%s}' % (x[1], x[2], fields))
            if isinstance(x, tuple) and x[0] == 'const' and ('cpath' in x[1]) and any(l in x[1]['cpath'] for l in LIBS):
                out.append(x[1]['cpath'])
            if isinstance(x, tuple) and x[0] == 'const' and x[1].get('pm'):
                for m in x[1]['pm']:
                    if any(l in m for l in LIBS):
                        out.append(m.replace('const ', ''))
            if isinstance(x, tuple) and x[0] == 'const' and 'Alphabet' in x[1].get('txt', ''):
                out.append(x[1]['txt'])
    return sorted(set(out))


def direction(c, unres):
    s = (c + ' ' + unres).lower()
    if 'decode' in s:
        return 'decode'
    if 'encode' in s:
        return 'encode'
    return '?'


def crate_of(c, unres):
    for l in LIBS:
        if l in c or l in unres:
            return l.rstrip(':')
    return '?'


def run(rep, facts, tier):
    fx = facts['dev']
    rep.rule('C18.R1', 'encoder and decoder of a word pair use the same crate and the same codec constant')
    rep.rule('C18.R2', 'encoders accept what >bitstr accepts: bytes come from into_bitstr + bytestr, no other path')
    rep.rule('C18.R3', 'invalid text yields nil: the library failure value reaches push_data(NIL) and an Ok return')
    _V[0] = inline.View(fx)
    words = {w['name']: w for w in fx.registry()['words'] if w['in'] == 'base_ext::load'}
    pairs = sorted(n for n in words if n + '>' in words)
    rep.floor('C18 encoder/decoder word pairs', len(pairs), 4)
    for n in pairs:
        enc, dec = words[n]['target'], words[n + '>']['target']
        le = [x for x in lib_calls(fx, enc) if direction(x[0], x[1]) != '?']
        ld_all = [x for x in lib_calls(fx, dec) if direction(x[0], x[1]) != '?']
        # a decoder may call the encoder of its own pair to check that the text is canonical (same callee, same codec constant)
        ld = [x for x in ld_all if direction(x[0], x[1]) == 'decode' or not
              (le and (x[0], x[1]) == (le[0][0], le[0][1]) and codec_const(x[2]) == codec_const(le[0][2]))]
        key = 'C18.R1:%s' % n
        if len(le) != 1 or len(ld) != 1:
            rep.add('C18.R1', key, False, 'expected exactly one library call per word, found encode=%d decode=%d' % (len(le), len(ld)), enc,
                    fx.fns[enc].j['span'] if enc in fx.fns else None)
            continue
        (ce, ue, ae, _, at_e), (cd, ud, ad, _, at_d) = le[0], ld[0]
        same_crate = crate_of(ce, ue) == crate_of(cd, ud) != '?'
        dirs = direction(ce, ue) == 'encode' and direction(cd, ud) == 'decode'
        ke, kd = codec_const(ae), codec_const(ad)
        same_const = ke == kd
        ok = same_crate and dirs and same_const
        rep.add('C18.R1', key, ok,
                '%s: %s / %s with codec %s' % (crate_of(ce, ue), short(ue or ce), short(ud or cd), ke or '(none: fixed alphabet)') if ok else
                'pair %s/%s> disagrees: encoder %s %s vs decoder %s %s' % (n, n, short(ue or ce), ke, short(ud or cd), kd),
                enc, at_e)
        # R2 encoder input path
        f = _V[0](enc)
        units = [f] + [fx.fns[r] for r in fx.reachable_from([enc], stop={'bitstr_ext::into_bitstr'})
                       if r.startswith('base_ext::') and r != enc and r in fx.fns and r not in getattr(f, 'inlined', [])]
        has_into = any(callee_of(t) == 'bitstr_ext::into_bitstr' for u in units for _, t in u.calls())
        other_in = []
        for u in units:
            for _, t in u.calls():
                c = callee_of(t)
                if c in ('state::State::pop_data', 'state::State::top_data', 'state::State::get_data') or \
                        (c or '').startswith('cell::Cell::to_') or c in ('cell::Cell::bitstr', 'cell::Cell::str', 'cell::Cell::vec'):
                    other_in.append(short(c))
        # bytes given to the library derive from bytestr(into_bitstr(..))
        bytes_ok = False
        for a in ae:
            s_ = expr_str(a, -30)
            if 'Bitstr::bytestr' in s_ and 'into_bitstr' in s_:
                bytes_ok = True
        okr2 = has_into and not other_in and bytes_ok
        rep.add('C18.R2', 'C18.R2:%s' % n, okr2,
                'input = into_bitstr(xs) (same as >bitstr) then bytestr()' if okr2 else
                'encoder %s does not take its bytes through into_bitstr+bytestr (into_bitstr=%s, other input paths=%s, bytes-from-bytestr=%s): it '
                'accepts different inputs than >bitstr' % (n, has_into, other_in, bytes_ok), enc, f.j['span'] if f else None)
        # bytestr None -> ToBytestrError
        tb = False
        scan = list(units)
        for u in list(units):
            for c2 in fx.reachable_from([u.name]):
                if '{closure' in c2 and c2 in fx.fns and c2.split('::{closure')[0] in [x.name for x in units] + list(getattr(f, 'inlined', [])):
                    scan.append(fx.fns[c2])
        for u in scan:
            for b2 in u.reachable_blocks():
                for st in u.blocks[b2]['stmts']:
                    if st['k'] == 'assign' and st['rv']['k'] == 'agg' and st['rv'].get('variant') == 'ToBytestrError':
                        tb = True
        rep.add('C18.R2', 'C18.R2:%s:non-byte-length-error' % n, tb,
                'a bit-string that is not a whole number of bytes yields ToBytestrError' if tb else 'no ToBytestrError mapping found', enc,
                f.j['span'] if f else None, nontrivial=False)
        # R3 decoder failure path
        check_decoder(rep, fx, n + '>', dec)


def check_decoder(rep, fx, name, dec):
    if fx.fns.get(dec) is None:
        rep.add('C18.R3', 'C18.R3:%s' % name, False, 'decoder body not found', dec)
        return
    f = _V[0](dec)
    key = 'C18.R3:%s' % name
    # the word must not let the failure of its decoding step out as an error: no Err return of its own, every result goes
    # through push_data, and one of the pushes is NIL
    libs = [x for x in lib_calls(fx, dec) if direction(x[0], x[1]) == 'decode']
    nil_push = False
    for bb, t in f.calls():
        if callee_of(t) == 'state::State::push_data':
            a = f.expr_of_operand(t['args'][1])
            if any(isinstance(x, tuple) and x[0] == 'const' and (x[1].get('cpath') == 'cell::NIL' or 'Nil' in x[1].get('txt', '')) for x in expr_walk(a)) \
                    or any(isinstance(x, tuple) and x[0] == 'agg' and x[2] == 'Nil' for x in expr_walk(a)):
                nil_push = True
    errs = [d for (bb, i, cls, d) in return_defs(f, follow=True) if cls == 'err']
    fwd = [d for (bb, i, cls, d) in return_defs(f, follow=True) if cls == 'forward']
    only_push = all(d == 'state::State::push_data' for d in fwd)
    ok = bool(libs) and nil_push and not errs and only_push
    rep.add('C18.R3', key, ok,
            'the failure of the decoding step is caught (no `?`), that arm pushes NIL and returns push_data\'s Ok' if ok else
            'decoder %s can return an error or a non-nil value for invalid text (decode-call=%s, nil-push=%s, own Err returns=%d, forwards=%s)'
            % (name, bool(libs), nil_push, len(errs), fwd), dec, f.j['span'])
    # libraries that are more lenient than the alphabet: base32 0.4 decodes '=' anywhere as the digit 0 and accepts lower case;
    # z85 3.0 accepts '#' padding in places where it then miscounts.  Their wrappers must look at the text themselves: some test
    # of a value computed from the text decides whether the library is asked at all
    from ..pathq import edge_guards
    LENIENT = ('base32::decode', 'z85::decode')
    # (judged in the function the call stands in, as written: in a view with the vetting helper spliced in, the helper's early
    # returns are several ways into the call and no single branch stands for the test)
    for h in [fx.fns[dec]] + [fx.fns[r] for r in fx.reachable_from([dec]) if r.startswith('base_ext::') and r != dec and r in fx.fns and '{closure' not in r]:
        for bb, t in h.calls():
            c = callee_of(t) or ''
            if c not in LENIENT:
                continue
            txt = expr_str(h.expr_of_operand(t['args'][-1]), -8)
            core_txt = 'cell::Cell::to_xstr'
            vetted = any(core_txt in expr_str(e, -30) for (b2, e, side) in edge_guards(h, bb))
            rep.add('C18.R3', key + ':lenient-library-text-vetted', vetted,
                    'the text is tested before %s sees it' % short(c) if vetted else
                    '%s hands the text to %s unchecked: that library decodes some text outside the alphabet (or panics on it) instead of '
                    'reporting failure, so invalid text yields a value, not nil' % (short(h.name), short(c)), h.name, t.get('at'))
    # base32 0.4 also upper-cases its input and drops the spare bits of the last digit: many texts decode to the same bytes.  Only
    # the text the encoder writes for those bytes is valid - the wrapper encodes the result again and lets a comparison with the
    # text decide whether the value is returned
    for h in [fx.fns[r] for r in sorted(fx.reachable_from([dec]) | {dec}) if r.startswith('base_ext::') and r in fx.fns and '{closure' not in r]:
        decs = [(bb, t) for bb, t in h.calls() if callee_of(t) == 'base32::decode']
        if not decs:
            continue
        encs = [bb for bb, t in h.calls() if callee_of(t) == 'base32::encode']
        okret = [bb for (bb, i, cls, d) in return_defs(h) if cls == 'ok']
        cmp_guard = False
        as_read = False
        for rb in okret:
            for (b2, e, side) in edge_guards(h, rb):
                if isinstance(e, tuple) and e[0] == 'call' and 'cmp::PartialEq' in e[1] and 'base32::encode' in expr_str(e, -30):
                    cmp_guard = True
                    # what the re-encoded text is compared with: for some alphabet (the ones without substitutions of their own)
                    # it is the text as it was read - conversions between string types only, no mapping of characters
                    for a in e[2]:
                        if 'base32::encode' in expr_str(a, -30):
                            continue
                        if any(_text_as_read(alt) for alt in _phi_alts(a)):  
                            as_read = True
        if encs and cmp_guard and not as_read:
            rep.add('C18.R3', key + ':canonical-text-only', False,
                    '%s compares the re-encoded bytes with a transformed text for every alphabet (no alternative of the compared value is the '
                    'text as read): case folding or character mapping before the comparison admits text the encoder never writes, '
                    '`"ieyq====" base32>` gives |41 31|' % short(h.name), h.name, decs[0][1].get('at'))
            continue
        rep.add('C18.R3', key + ':canonical-text-only', bool(encs) and cmp_guard,
                'the decoded bytes are encoded again and the Ok return depends on the comparison with the text' if encs and cmp_guard else
                '%s returns what base32::decode yields without checking that the text is the canonical one: `"ieyq====" base32>` gives |41 31| '
                '(no lower case in the alphabet) and IEYR==== decodes like IEYQ====' % short(h.name), h.name, decs[0][1].get('at'))
    # the library's failure value is turned into the Err that the word catches
    units = [f] + [fx.fns[r] for r in fx.reachable_from([dec]) if r.startswith('base_ext::') and r != dec and r in fx.fns
                   and r not in getattr(f, 'inlined', []) and '{closure' not in r]
    maps = False
    for h in units:
        for _, t2 in h.calls():
            c = callee_of(t2) or ''
            if c.endswith('::ok_or_else') or c.endswith('::map_err') or c.endswith('::ok_or'):
                a = h.expr_of_operand(t2['args'][0])
                if any(isinstance(x, tuple) and x[0] == 'call' and 'decode' in (x[1]).lower() for x in expr_walk(a)):
                    maps = True
    if not maps:
        # ... or by a `match` on the library's result whose failure arm builds the Err
        from ..pathq import error_blocks as _eb
        for h in units:
            errb = _eb(h)
            for b2 in h.reachable_blocks():
                t2 = h.blocks[b2]['term']
                if t2['k'] != 'switch':
                    continue
                d = h.expr_of_operand(t2['discr'])
                if isinstance(d, tuple) and d[0] == 'discr' and any(isinstance(x, tuple) and x[0] == 'call' and 'decode' in x[1].lower()
                                                                    and not x[1].startswith('base_ext::') for x in expr_walk(d[1])):
                    arms = [tg for _, tg in t2['targets']] + ([t2['otherwise']] if t2.get('otherwise') is not None else [])
                    if any(tg in errb or (blocks_after_(h, tg) & errb) for tg in arms):
                        maps = True
    rep.add('C18.R3', key + ':helper-maps-failure', maps,
            'library None/Err is mapped to Err and propagated to the word, which turns it into nil' if maps else
            'the failure value of the library decode call is not mapped to an error on the way to %s' % name, dec, f.j['span'])

# as-built addendum
EXPLANATION += ' As built (DESIGN 9.2): R1 tolerates a canonical re-encode inside a decoder. R3 also: a library decoder more lenient than its alphabet (base32, z85) sees the text only behind a test that admits canonical text only.'
