"""C06 — parsing cursor: a read returns exactly the requested bits and advances that far.

R1 who may write the cursor cells / move the offset; R2 the offset write is
bounded by the current input; R3 peek -> check -> commit -> push with nothing
fallible after the commit; R4 open/close are a LIFO pair on one stash."""
from ..core import (callee_of, expr_walk, expr_str, return_defs, short, op_place, MissingAnchor, runtime_targets, expr_subst_args)
from ..pathq import try_continue_block, try_break_block, bool_branch, blocks_after, cmp_of, exists_path_avoiding
from ..zone import strip as zstrip
from .. import inline

EXPLANATION = (
    "The cursor is three heap cells (BitstrState.input/offset/stash) reached only through State::set_var/update_var/"
    "swap_cell_ref with a CellRef loaded from xs.bitstr_mod.<field>. R1: every such call site in the crate is in "
    "move_offset_checked (offset) or open_bitstr/word_close_bitstr (all three); move_offset_checked is called only from "
    "commit_read and seek. R2: in move_offset_checked the write is control-dependent on start() <= pos and pos <= end() of "
    "the current input; in open_bitstr the offset written is start() of the very bit-string stored as input. R3: "
    "commit_read tests the stack limit before moving the offset and after the move only push_data follows, whose only "
    "failure source is that same limit test (so a read that fails leaves the offset untouched); every function that peeks "
    "(peek_bits / nulbytestr_peek) ends every Ok path in commit_read with `end` = end of the peeked slice and a value "
    "computed from that slice (moves by exactly n, returns those bits). R4: open stores old input tagged with old offset as "
    "ONE stash element read before any write; close takes last() of the same stash for both and stores drop_last(); after "
    "the first cursor write only infallible-by-R1 steps follow. Not decided: that Bitstr::substr is bits [offset,offset+n) "
    "(value-level, C04), remain/find arithmetic, integer-limit arguments (C08).")
RULE_TEXT = ("instances = cursor-cell write sites, callers of move_offset_checked/commit_read/peek, branch conditions of "
             "the bounded write, open/close element provenance; non-trivial = provenance or control-dependence query")
ASSUMPTIONS = [
    "rustc MIR / Instance resolution correct",
    "script-level `! offset` stores are outside the property's quantifier (it ranges over the parsing words)",
    "Bitstr::substr/start/end behave as their names say (C04 value-level)",
]

CELLS = ('offset', 'input', 'stash')
WRITERS = {'state::State::set_var', 'state::State::update_var', 'state::State::swap_cell_ref'}
ALLOWED_WRITERS = {
    'offset': {'bitstr_ext::move_offset_checked', 'bitstr_ext::open_bitstr', 'bitstr_ext::word_close_bitstr'},
    'input': {'bitstr_ext::open_bitstr', 'bitstr_ext::word_close_bitstr'},
    'stash': {'bitstr_ext::open_bitstr', 'bitstr_ext::word_close_bitstr'},
}
MOVE = 'bitstr_ext::move_offset_checked'
CURRENT_INPUT = 'bitstr_ext::current_input'      # named in full: stays opaque in views
COMMIT = 'bitstr_ext::commit_read'
PEEKS = {'bitstr_ext::peek_bits', 'bitstr_ext::nulbytestr_peek'}
MOVE_CALLERS = {COMMIT: 'the single commit point of every read', 'bitstr_ext::word_seek': 'seek: user position, bounded by R2'}


def cell_of(f, operand):
    """which bitstr_mod cell a CellRef operand denotes"""
    return cell_of_expr(f.expr_of_operand(operand))


def reads_cell(e, cell):
    """does e contain get_var(<the bitstr_mod cell `cell`>)?"""
    return any(isinstance(y, tuple) and y[0] == 'call' and y[1] == 'state::State::get_var' and len(y[2]) > 1 and cell_of_expr(y[2][1]) == cell
               for y in expr_walk(e))


def cell_of_expr(e):
    for x in expr_walk(e):
        if isinstance(x, tuple) and x[0] == 'proj' and 'bitstr_mod' in x[2]:
            for c in ('offset', 'input', 'stash', 'big_endian', 'output', 'output_len'):
                if c in x[2]:
                    return c
    # through a local copy of the cell table (`let m = xs.bitstr_mod.clone(); .. m.offset`)
    for x in expr_walk(e):
        if isinstance(x, tuple) and x[0] == 'proj' and 'bitstr_mod' in expr_str(x[1], -12):
            for c in ('offset', 'input', 'stash', 'big_endian', 'output', 'output_len'):
                if c in x[2]:
                    return c
    return None


def run(rep, facts, tier):
    fx = facts['dev']
    rep.rule('C06.R1', 'who may write the cursor cells (offset/input/stash) and who may move the offset')
    rep.rule('C06.R2', 'the offset write is bounded by the current input')
    rep.rule('C06.R3', 'peek -> check -> commit -> push: exact advance, same bits pushed, nothing can fail after the commit')
    rep.rule('C06.R4', 'open/close are a LIFO pair on one stash; no half-open state')

    # ---------- R1
    n = 0
    V = inline.View(fx)       # private helpers that no rule names are looked through: their writes count as their callers'
    for fn in sorted(fx.fns):
        if V.transparent(fn) and fx.callers().get(fn):
            continue
        f = V(fn)
        for bb, t in f.calls():
            c = callee_of(t)
            if c in WRITERS and len(t['args']) > 1:
                cell = cell_of(f, t['args'][1])
                if cell in CELLS:
                    n += 1
                    ok = fn in ALLOWED_WRITERS[cell]
                    rep.add('C06.R1', 'C06.R1:write:%s:%s' % (cell, fn), ok,
                            'cursor cell `%s` written by its owner' % cell if ok else
                            '%s writes the cursor cell `%s` (%s): the cursor moves outside the checked protocol' % (short(fn), cell, short(c)),
                            fn, t.get('at'))
            if c == MOVE:
                ok = fn in MOVE_CALLERS
                rep.add('C06.R1', 'C06.R1:move:%s' % fn, ok, MOVE_CALLERS.get(fn, '%s moves the offset directly, bypassing commit_read '
                        '(stack-limit test first, nothing fallible after)' % short(fn)), fn, t.get('at'))
    rep.floor('C06.R1 cursor write sites', n, 7)

    # ---------- R2
    fx.need(MOVE)
    mf = V(MOVE)       # helpers looked through, `let inside = a && b; if !inside {..}` threaded into the nested tests it stands for
    sets = [(bb, t) for bb, t in mf.calls() if callee_of(t) in WRITERS and cell_of(mf, t['args'][1]) == 'offset']
    rep.floor('C06.R2 offset write in move_offset_checked', len(sets), 1)
    from .c08 import guard_facts
    for bb, t in sets:
        upper = False
        for (op, a, b) in guard_facts(mf, bb):
            if op not in ('Le', 'Ge', 'Lt', 'Gt'):
                continue
            if op in ('Ge', 'Gt'):
                op, a, b = {'Ge': 'Le', 'Gt': 'Lt'}[op], b, a
            sa, sb = expr_str(zstrip(a), -20), expr_str(zstrip(b), -20)
            src_ok = CURRENT_INPUT in expr_str(zstrip(a), -40) + expr_str(zstrip(b), -40)
            if op == 'Le' and 'arg2' in sa and 'Bitstr' not in sa and 'Bitstr::len' in sb and src_ok:
                upper = True          # pos <= input.len(): the offset counts bits of the value (C04.R4), so 0 is the lower bound
        # value written is the checked position
        val = expr_str(mf.expr_of_operand(t['args'][2]))
        same = 'arg2' in val
        rep.add('C06.R2', 'C06.R2:move_offset_checked:bounded', upper and same,
                'set_var(offset, pos) runs only if pos <= input.len(), and writes that pos'
                if upper and same else
                'offset write not bounded by the length of the current input (upper=%s writes-checked-pos=%s)' % (upper, same),
                MOVE, t.get('at'))
    fx.need('bitstr_ext::open_bitstr')
    of = V('bitstr_ext::open_bitstr')
    off_sets = [(bb, t) for bb, t in of.calls() if callee_of(t) in WRITERS and cell_of(of, t['args'][1]) == 'offset']
    in_sets = [(bb, t) for bb, t in of.calls() if callee_of(t) in WRITERS and cell_of(of, t['args'][1]) == 'input']
    for bb, t in off_sets:
        ev = zstrip(of.expr_of_operand(t['args'][2]))
        v = expr_str(ev)
        ok = _is_zero_cell(fx, ev)
        ok2 = any('arg2' in expr_str(of.expr_of_operand(t2['args'][2])) for _, t2 in in_sets)
        rep.add('C06.R2', 'C06.R2:open_bitstr:offset-is-start-of-new-input', ok and ok2,
                'open writes offset = 0 (no bits consumed) and input = s' if ok and ok2 else
                'open_bitstr writes offset %s which is not the start (0 bits consumed) of the bit-string it installs as input' % v[:60],
                of.name, t.get('at'))

    # ---------- R3
    fx.need(COMMIT)
    cf = V(COMMIT)            # `let end = offset_after(xs, nbits)?` reads as the checked addition the helper performs
    mv = [(bb, t) for bb, t in cf.calls() if callee_of(t) == MOVE]
    chk = [(bb, t) for bb, t in cf.calls() if callee_of(t) == 'state::State::check_stack_limit']
    if not mv:
        rep.add('C06.R3', 'C06.R3:commit_read:moves', False, 'commit_read does not call move_offset_checked', COMMIT, cf.j['span'])
    for bb, t in mv:
        cont = try_continue_block(cf, bb)
        # (c) nothing fallible after the commit except push_data
        bad = []
        after = (blocks_after(cf, cont) | {cont}) if cont is not None else set()
        for b in after:
            tt = cf.blocks[b]['term']
            if tt['k'] == 'call':
                c = callee_of(tt)
                if c is None:
                    bad.append('indirect call')
                elif c in fx.fns and c != 'state::State::push_data':
                    # local fallible function?
                    rt = fx.fns[c].local_ty(0)
                    if 'Result' in rt:
                        bad.append(short(c))
                elif 'try_trait::Try' in (c or ''):
                    bad.append('`?`')
        pre = any(try_continue_block(cf, cb) is not None and cf.dominates(try_continue_block(cf, cb), bb) for cb, _ in chk)
        ok = cont is not None and not bad and pre
        rep.add('C06.R3', 'C06.R3:commit_read:nothing-fallible-after-commit', ok,
                'check_stack_limit()? dominates the move; after it only push_data follows' if ok else
                ('fallible steps after the offset moved: %s' % bad if bad else
                 'the stack limit is not tested before the offset moves, so the final push can fail after the commit'),
                COMMIT, t.get('at'))
        # the position and the pushed value are the caller's
        em = zstrip(cf.expr_of_operand(t['args'][1]))
        ok_args = _is_offset_plus(em, ('arg', 2))
        rep.add('C06.R3', 'C06.R3:commit_read:moves-to-its-argument', ok_args,
                'moves to current offset + the `nbits` it was given' if ok_args else
                'commit_read moves to %s, which is not the current offset plus its `nbits` argument' % expr_str(em, -12)[:80],
                COMMIT, t.get('at'))
    # push_data's only error source is the limit test
    pf = fx.need('state::State::push_data')
    errs = [(bb, i, d) for (bb, i, cls, d) in return_defs(pf) if cls in ('err', 'forward')]
    fall = []
    for bb, t in pf.calls():
        c = callee_of(t)
        if c in fx.fns and 'Result' in fx.fns[c].local_ty(0):
            fall.append(c)
    okp = set(fall) <= {'state::State::check_stack_limit'}
    rep.add('C06.R3', 'C06.R3:push_data:only-limit-can-fail', okp,
            'push_data can fail only through check_stack_limit' if okp else 'push_data has other failure sources: %s' % fall,
            pf.name, pf.j['span'])

    # callers of the peeks: every Ok path ends in commit_read with end/value from the peek.
    # A commit wrapper (a function that peeks nothing, whose every Ok path forwards commit_read and whose
    # commit arguments are functions of its own parameters) is summarised and checked at its callers with
    # the actual arguments substituted, so helper extraction does not change the verdict.
    # a function that peeks, checks something about the slice and hands it to its callers (no commit of its own) is a peek as well
    PEEK_FNS = set(PEEKS)
    grew = True
    while grew:
        grew = False
        for fn in sorted(fx.fns):
            if fn in PEEK_FNS or fn == COMMIT:
                continue
            f = fx.fns[fn]
            if not any(callee_of(t) in PEEK_FNS for _, t in f.calls()) or any(callee_of(t) == COMMIT for _, t in f.calls()):
                continue
            oks = [(cls, d) for (bb, i, cls, d) in return_defs(f, follow=True) if cls in ('ok', 'forward')]
            if oks and all((cls == 'forward' and d in PEEK_FNS) or cls == 'ok' for cls, d in oks) and \
                    _mentions(f.expr_of_local(0), PEEK_FNS) and 'Bitstr' in f.local_ty(0):
                PEEK_FNS.add(fn)
                grew = True
    rep.extra['peek_wrappers'] = sorted(PEEK_FNS - PEEKS)
    wrappers = {}     # fn -> [(e_end, e_val)] in terms of the wrapper's parameters
    changed = True
    while changed:
        changed = False
        for fn in sorted(fx.fns):
            if fn in wrappers or fn == COMMIT:
                continue
            f = fx.fns[fn]
            if any(callee_of(t) in PEEK_FNS for _, t in f.calls()):
                continue
            sites = _commit_sites(f, wrappers)
            if not sites:
                continue
            okdefs = [(bb, i, cls, d) for (bb, i, cls, d) in return_defs(f) if cls in ('ok', 'forward')]
            if any(not (cls == 'forward' and (d == COMMIT or d in wrappers)) for (_, _, cls, d) in okdefs):
                continue
            if all(_mentions_arg(e_end) for (_, _, e_end, _) in sites):
                wrappers[fn] = [(e_end, e_val) for (_, _, e_end, e_val) in sites]
                changed = True
    n_readers = 0
    for fn in sorted(fx.fns):
        f = fx.fns[fn]
        peeks = [(bb, t) for bb, t in f.calls() if callee_of(t) in PEEK_FNS]
        sites = _commit_sites(f, wrappers)
        if not peeks and not sites:
            continue
        key = 'C06.R3:%s' % fn
        if fn in PEEK_FNS and fn not in PEEKS:
            rep.add('C06.R3', key + ':peek-wrapper', True, 'peeks, checks the slice and hands it to its callers: counted as a peek, its callers are the readers',
                    fn, f.j['span'], nontrivial=False)
            continue
        if fn in wrappers:
            rep.add('C06.R3', key + ':commit-wrapper', True, 'forwards commit_read with arguments computed from its parameters: checked at its %d caller(s)'
                    % len(fx.callers().get(fn, ())), fn, f.j['span'], nontrivial=False)
            continue
        n_readers += 1
        okdefs = [(bb, i, cls, d) for (bb, i, cls, d) in return_defs(f) if cls in ('ok', 'forward')]
        bad = [d for (bb, i, cls, d) in okdefs if not (cls == 'forward' and (d == COMMIT or d in wrappers))]
        if bad or not sites:
            rep.add('C06.R3', key + ':ends-in-commit', False,
                    '%s peeks at the input but can return Ok without commit_read (%s): the bits are returned without advancing, or the offset '
                    'moves outside the protocol' % (short(fn), bad or 'no commit'), fn, f.j['span'])
            continue
        rep.add('C06.R3', key + ':ends-in-commit', True, 'every Ok path forwards commit_read', fn, f.j['span'], nontrivial=False)
        for bb, t, e_end, e_val in sites:
            s_end = _s(e_end)
            # the position IS end() of the peeked slice (or the end nulbytestr_peek computed) — not merely computed from it
            top = zstrip(e_end)
            from_peek_end = (isinstance(top, tuple) and top[0] == 'call' and top[1] == 'bitstr::Bitstr::len' and _mentions(top, PEEK_FNS)) \
                or (isinstance(top, tuple) and top[0] == 'proj' and _mentions(top, {'bitstr_ext::nulbytestr_peek'}) and not _has_arith(top))
            val_from_peek = _mentions(e_val, PEEK_FNS)
            rep.add('C06.R3', key + ':advance-is-length-of-peeked-slice', from_peek_end,
                    'the cursor advances by .len() of the slice peek returned' if from_peek_end else
                    'advance %s is not the length of the peeked slice: the offset does not move by exactly n' % s_end[:70], fn, t.get('at'))
            rep.add('C06.R3', key + ':value-from-peeked-slice', val_from_peek,
                    'pushed value is computed from the peeked slice' if val_from_peek else
                    'pushed value %s does not derive from the peeked slice' % _s(e_val)[:70], fn, t.get('at'))
    rep.floor('C06.R3 readers (callers of peek)', n_readers, 7)
    # nulbytestr_peek: (rest.read(len), len) for the same len, rest = the bits at the cursor
    nf = fx.need('bitstr_ext::nulbytestr_peek')
    okn = False
    for (bb, i, kind, payload) in nf.defs().get(0, []):
        if kind == 'assign':
            e = nf.expr_of_rvalue(payload, 0, frozenset())
            for x in expr_walk(e):
                # a pair - tuple or a two-field struct, in either order - of the first n bits of the rest (read / peek / substr from 0)
                # and that same n
                if isinstance(x, tuple) and x[0] == 'agg' and len(x) > 3 and isinstance(x[3], (list, tuple)) and len(x[3]) == 2:
                    for first, second in (tuple(x[3]), tuple(x[3])[::-1]):
                        reads = [y for y in expr_walk(first) if isinstance(y, tuple) and y[0] == 'call' and y[1] in ('bitstr::Bitstr::read', 'bitstr::Bitstr::peek')]
                        if reads and _mentions(first, {'bitstr_ext::rest_bits'}) and repr(zstrip(reads[0][2][1])) == repr(zstrip(second)):
                            okn = True
    rep.add('C06.R3', 'C06.R3:nulbytestr_peek:advance-is-length-read', okn,
            'returns (rest.read(len), len) for the same rest and len' if okn else
            'nulbytestr_peek result is not (rest.read(len), len) with one len', nf.name, nf.j['span'])

    # ---------- R2 (continued): the sizes and positions a program passes reach the cursor arithmetic unchanged
    from .. import casts
    from .c08 import build_zone, type_of_operand
    fns = [fn for fn in fx.fns if fn == 'cell::Cell::to_usize' or fn.startswith('bitstr_ext::')]
    for (fn, frm, to, at, exact, why) in casts.lossy_user_casts(fx, fns, build_zone, type_of_operand):
        rep.add('C06.R2', 'C06.R2:lossy-cast:%s:%s->%s' % (fn, frm, to), exact, why if exact else
                why + ' - `18446744073709551616 seek` moves the offset to 0 and `18446744073709551624 uint` reads 8 bits instead of failing', fn, at)

    # ---------- R4
    check_open(rep, fx, of)
    check_close(rep, fx)


def _s(e):
    return expr_str(e, -20)


def _commit_sites(f, wrappers):
    """[(bb, term, e_end, e_val)] for direct commit_read calls and calls of commit wrappers (arguments substituted)"""
    out = []
    for bb, t in f.calls():
        c = callee_of(t)
        if c == COMMIT:
            out.append((bb, t, f.expr_of_operand(t['args'][1]), f.expr_of_operand(t['args'][2])))
        elif c in wrappers:
            actuals = [f.expr_of_operand(a) for a in t['args']]
            for (e_end, e_val) in wrappers[c]:
                out.append((bb, t, expr_subst_args(e_end, actuals), expr_subst_args(e_val, actuals)))
    return out


def _is_zero_cell(fx, e):
    """the integer cell 0: the named constant whose initialiser is Cell::Int(0), or Cell::from(0)"""
    if isinstance(e, tuple) and e[0] == 'const' and isinstance(e[1], dict) and e[1].get('cpath'):
        e = fx.const_value(e[1]['cpath'])
    if isinstance(e, tuple) and e[0] == 'call' and 'From<' in e[1] and e[1].startswith('<cell::Cell as') and len(e[2]) == 1:
        a = zstrip(e[2][0])
        return isinstance(a, tuple) and a[0] == 'const' and isinstance(a[1], dict) and a[1].get('v') == 0
    return isinstance(e, tuple) and e[0] == 'agg' and e[1] == 'cell::Cell' and e[2] == 'Int' and len(e[3]) == 1 \
        and isinstance(e[3][0], tuple) and e[3][0][0] == 'const' and isinstance(e[3][0][1], dict) and e[3][0][1].get('v') == 0


def _is_offset_plus(e, what):
    """e is (current offset) + what, overflow-checked: checked_add(current_offset()?, what)? or the checked `+`"""
    for x in expr_walk(e):
        if not isinstance(x, tuple):
            continue
        ops = None
        if x[0] == 'call' and x[1].endswith('::checked_add') and len(x[2]) == 2:
            ops = x[2]
        elif x[0] == 'bin' and x[1] in ('Add', 'AddWithOverflow'):
            ops = x[2:4]
        if ops is None:
            continue
        a, b = zstrip(ops[0]), zstrip(ops[1])
        for p, q in ((a, b), (b, a)):
            if _mentions(p, {'bitstr_ext::current_offset'}) and not _has_arith(p) and q == what:
                return True
    return False


def _has_arith(e):
    return any(isinstance(x, tuple) and x[0] in ('bin', 'un') for x in expr_walk(e))


def _mentions_arg(e):
    """depends on a parameter other than the interpreter state (arg1): what a commit wrapper forwards is its caller's"""
    return any(isinstance(x, tuple) and x[0] == 'arg' and x[1] >= 2 for x in expr_walk(e))


def _mentions(e, names):
    return any(isinstance(x, tuple) and x[0] == 'call' and x[1] in names for x in expr_walk(e))


FALLIBLE_OK_AFTER_WRITE = {
    'state::State::set_var': 'cursor cell store; fails only in meta mode / bad ref, which the first get_var would have hit before any write',
    'state::State::get_var': 'same failure conditions as the get_var calls that precede the first write',
    'cell::Cell::vec': 'the stash cell is written only by open/close (R1) and both store a vector',
}


def _after_first_write(rep, fx, f, key):
    writes = [(bb, t) for bb, t in f.calls() if callee_of(t) in WRITERS and cell_of(f, t['args'][1]) in CELLS]
    if not writes:
        return
    first = None
    for bb, t in writes:
        if all(f.dominates(bb, b2) for b2, _ in writes):
            first = bb
    if first is None:
        first = writes[0][0]
    after = blocks_after(f, first)
    bad = []
    for b in after:
        tt = f.blocks[b]['term']
        if tt['k'] == 'call':
            c = callee_of(tt)
            if c in fx.fns and 'Result' in fx.fns[c].local_ty(0) and c not in FALLIBLE_OK_AFTER_WRITE:
                bad.append(short(c))
            if c is not None and c.startswith('core::option::Option::<T>::ok_or'):
                bad.append('ok_or?')
    rep.add('C06.R4', key + ':no-half-open-state', not bad,
            'after the first cursor write only set_var/get_var/vec() on cursor cells follow (each infallible by R1 at that point)' if not bad
            else 'a fallible step (%s) follows the first cursor write: an error leaves input/offset/stash half updated' % ', '.join(bad),
            f.name, f.at(first))


def check_open(rep, fx, of):
    stash_sets = [(bb, t) for bb, t in of.calls() if callee_of(t) in WRITERS and cell_of(of, t['args'][1]) == 'stash']
    writes = [(bb, t) for bb, t in of.calls() if callee_of(t) in WRITERS and cell_of(of, t['args'][1]) in CELLS]
    rep.floor('C06.R4 stash write in open_bitstr', len(stash_sets), 1)
    for bb, t in stash_sets:
        e = of.expr_of_operand(t['args'][2])
        s = _s(e)
        # pushed element = insert_tag(old_input, OFFSET, old_offset)
        pb = [x for x in expr_walk(e) if isinstance(x, tuple) and x[0] == 'call' and x[1].endswith('push_back')]
        ok = False
        why = 'the new stash is not old_stash.push_back(element)'
        it = []
        if pb:
            x = pb[0]
            base, elem = x[2][0], x[2][1]
            base_ok = reads_cell(base, 'stash')
            it = [y for y in expr_walk(elem) if isinstance(y, tuple) and y[0] == 'call' and y[1] == 'cell::Cell::insert_tag']
            # on EVERY path the element is the tagged one: an untagged shortcut (say, when the offset is 0) lets a user tag of the
            # same name on the input decide where close-bitstr puts the cursor
            def _alts(e, d=0):
                e = zstrip(e)
                if isinstance(e, tuple) and e[0] == 'phi' and d < 4:
                    return [a for x in e[1] for a in _alts(x, d + 1)]
                return [e]
            untagged = [a for a in _alts(elem) if not (isinstance(a, tuple) and a[0] == 'call' and a[1] == 'cell::Cell::insert_tag')]
            if it and untagged:
                it = []
                why = 'on some path the stash element is the old input as it is (%s), not the input tagged with the old offset' % expr_str(untagged[0], -8)[:60]
            if it:
                y = it[0]
                has_in = reads_cell(y[2][0], 'input')
                has_off = reads_cell(y[2][2], 'offset')
                # the reads precede every cursor write
                read_bbs = [z[3] for z in expr_walk(y) if isinstance(z, tuple) and z[0] == 'call' and z[1] == 'state::State::get_var']
                before = all(all(of.dominates(rb, wb) and rb != wb for wb, _ in writes) for rb in read_bbs)
                ok = base_ok and has_in and has_off and before
                why = ('one element = old input tagged with old offset, both read before any write, appended to the old stash' if ok else
                       'stash element does not pair old input with old offset read before the writes (input=%s offset=%s before=%s base=%s)'
                       % (has_in, has_off, before, base_ok))
        rep.add('C06.R4', 'C06.R4:open_bitstr:pushes-old-input+offset', ok, why, of.name, t.get('at'))
    _after_first_write(rep, fx, of, 'C06.R4:open_bitstr')


def check_close(rep, fx):
    fx.need('bitstr_ext::word_close_bitstr')
    f = inline.View(fx)('bitstr_ext::word_close_bitstr')
    sets = {}
    for bb, t in f.calls():
        if callee_of(t) in WRITERS:
            c = cell_of(f, t['args'][1])
            if c in CELLS:
                sets[c] = (bb, t)
    ok_all = set(sets) == set(CELLS)
    rep.add('C06.R4', 'C06.R4:close:writes-all-three', ok_all,
            'close restores offset, input and stash' if ok_all else 'close writes only %s' % sorted(sets), f.name, f.j['span'], nontrivial=False)
    if not ok_all:
        return
    def last_call(e):
        return [x for x in expr_walk(e) if isinstance(x, tuple) and x[0] == 'call' and x[1].endswith('::last')]
    e_off = f.expr_of_operand(sets['offset'][1]['args'][2])
    e_in = f.expr_of_operand(sets['input'][1]['args'][2])
    e_st = f.expr_of_operand(sets['stash'][1]['args'][2])
    lo, li = last_call(e_off), last_call(e_in)
    same_elem = bool(lo) and bool(li) and lo[0] == li[0] and 'stash' in _s(lo[0])
    tag = 'get_tag' in _s(e_off)
    val = 'Cell::value' in _s(e_in)
    rep.add('C06.R4', 'C06.R4:close:offset+input-from-same-last-element', same_elem and tag and val,
            'offset = tag of stash.last(), input = value of the same element' if same_elem and tag and val else
            'close does not take offset and input from one stash element (same=%s tag=%s value=%s)' % (same_elem, tag, val),
            f.name, sets['offset'][1].get('at'))
    dl = [x for x in expr_walk(e_st) if isinstance(x, tuple) and x[0] == 'call' and x[1].endswith('drop_last')]
    okd = bool(dl) and 'stash' in _s(dl[0])
    rep.add('C06.R4', 'C06.R4:close:stores-drop_last', okd,
            'new stash = old stash without its last element (LIFO)' if okd else 'close does not store stash.drop_last()', f.name,
            sets['stash'][1].get('at'))
    _after_first_write(rep, fx, f, 'C06.R4:close')

# as-built addendum
EXPLANATION += ' As built (DESIGN 9.2): As built the cursor counts bits of the value: the move is bounded by input.len(), open starts at the constant 0, size/position arguments are converted without wrapping, and a read advances the current offset by len() of the peeked slice with an overflow check (peek wrappers are looked through).'
