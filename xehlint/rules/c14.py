"""C14 — resource limits are hard bounds and hitting one is recoverable.

R1 who-may-grow, R2 check dominates growth with the exact boundary,
R3 every executed instruction is metered, R4 a limit hit is side-effect free."""
from ..core import (callee_of, expr_walk, expr_str, TRY_BRANCH, return_defs, short, op_place,
                    MissingAnchor)
from .. import awrite
from ..pathq import try_continue_block, bool_branch, blocks_reaching, cmp_of

EXPLANATION = (
    "Decides the step case of the invariant 'data stack <= S, heap <= H, executed instructions <= N' from the MIR of the "
    "real build: (R1) every growing write to State.data_stack / State.heap / State.insn_meter anywhere in the crate is in "
    "the one metered primitive (push_data / alloc_heap / insn_meter_increase) or a reviewed exception; (R2) in each "
    "primitive the growth is dominated by the Ok edge of its limit check and the check errs exactly when the pre-growth "
    "size >= limit; (R3) the only functions that dispatch on Opcode and call through XfnPtr are fetch_and_run / "
    "run_immediate, and in fetch_and_run the meter check dominates the dispatch; (R4) on the Err edge of each check no "
    "State field has been written. Not decided: behaviour when a limit is lowered below the current size; limits inside "
    "reverse_changes (it only re-inserts what a logged pop removed).")
RULE_TEXT = ("instances = (field, writer function, write kind) triples found by the A-WRITE analysis over all 850 bodies, "
             "plus one obligation per limit check (dominance, comparison operator and operands read from MIR, "
             "side-effect freedom of the Err path); non-trivial = needed a dominance/path/provenance query rather than a "
             "table lookup")
ASSUMPTIONS = [
    "rustc MIR construction and Instance resolution are correct for the analysed build (nightly 1.97, mir-opt-level 0)",
    "std Vec/Option methods behave as documented (push grows by one, len is the length)",
    "cargo feature calc_limit is enabled (default); without it the checks are compiled out and the property is vacuous",
]

LIMITED = {
    # field: (primitive, check fn, limit field, allowed other growers with reason)
    'data_stack': ('state::State::push_data', 'state::State::check_stack_limit', 'stack_limit',
                   {'state::State::reverse_changes': 'PushData arm re-inserts a value that a logged pop removed; cannot exceed an earlier length'}),
    'heap': ('state::State::alloc_heap', 'state::State::check_heap_limit', 'heap_limit', {}),
}
METER_WRITERS = {'state::State::insn_meter_increase': 'increment', 'state::State::set_insn_limit': 'reset to 0'}


def run(rep, facts, tier):
    fx = facts['dev']
    rep.rule('C14.R1', 'who may grow: growing writes to data_stack / heap and writes to insn_meter only in the metered primitives')
    rep.rule('C14.R2', 'the limit check dominates the growth and errs exactly when pre-growth size >= limit')
    rep.rule('C14.R3', 'every executed instruction is metered: single dispatch function, meter check dominates dispatch')
    rep.rule('C14.R4', 'hitting a limit changes nothing: no State write before the Err edge of a check')
    tracked = awrite.state_tracked(fx)
    W = awrite.all_field_writes(fx, 'state', tracked)

    # ---------------- R1
    n_r1 = 0
    for fn, ws in sorted(W.items()):
        for w in ws:
            fld = w['field'][0]
            if fld in LIMITED:
                prim, _chk, _lim, allowed = LIMITED[fld]
                how = w['how']
                whole = not w.get('elem')
                grows = how.startswith('call:grow') or (whole and (how.startswith('call:unknown') or
                                                                   how.startswith('assign') and len(w['field']) == 1 or
                                                                   how.startswith('call:overwrite')))
                if not grows:
                    rep.add('C14.R1', 'C14.R1:%s:%s:%s' % (fld, fn, how), True,
                            'non-growing write (%s)' % how, fn, w['at'], nontrivial=False)
                    n_r1 += 1
                    continue
                ok = fn == prim or fn in allowed
                why = ('growth of %s in its metered primitive' % fld) if fn == prim else \
                    ('reviewed exception: ' + allowed[fn]) if fn in allowed else \
                    ('%s grows/overwrites State.%s (%s) outside %s: the limit check is bypassed' % (fn, fld, how, prim))
                rep.add('C14.R1', 'C14.R1:%s:%s:%s' % (fld, fn, how), ok, why, fn, w['at'])
                n_r1 += 1
            elif fld == 'insn_meter':
                ok = fn in METER_WRITERS
                rep.add('C14.R1', 'C14.R1:insn_meter:%s:%s' % (fn, w['how']), ok,
                        METER_WRITERS.get(fn, '%s writes State.insn_meter: the instruction count can be forged' % fn),
                        fn, w['at'])
                n_r1 += 1
            elif fld in ('insn_limit', 'stack_limit', 'heap_limit'):
                setter = 'state::State::set_' + fld
                ok = fn == setter
                rep.add('C14.R1', 'C14.R1:%s:%s:%s' % (fld, fn, w['how']), ok,
                        'limit written by its setter' if ok else '%s writes State.%s outside its setter' % (fn, fld),
                        fn, w['at'], nontrivial=False)
                n_r1 += 1
    rep.floor('C14.R1 writers of limited fields', n_r1, 14)

    # ---------------- R2 / R4 for stack and heap
    for fld, (prim, chk, limf, _a) in LIMITED.items():
        pf = fx.need(prim)
        cf = fx.need(chk)
        # growth site(s) in the primitive
        grow_sites = [w for w in W.get(prim, []) if w['field'][0] == fld and w['how'].startswith('call:grow')]
        if not grow_sites:
            rep.add('C14.R2', 'C14.R2:%s:no-growth-site' % prim, False, 'no growing write to %s found in %s' % (fld, prim), prim)
            continue
        chk_calls = [(bb, t) for bb, t in pf.calls() if callee_of(t) == chk]
        if not chk_calls:
            rep.add('C14.R2', 'C14.R2:%s:check-dominates-growth' % prim, False,
                    '%s does not call %s at all: growth of %s is unchecked' % (prim, short(chk), fld), prim, pf.at(grow_sites[0]['bb']))
        for g in grow_sites:
            ok = False
            why = 'no `?`-propagated call to %s dominates the growth' % short(chk)
            for bb, t in chk_calls:
                cont = try_continue_block(pf, bb)
                if cont is None:
                    why = 'result of %s is not propagated with `?` (error ignored)' % short(chk)
                    continue
                if pf.dominates(cont, g['bb']):
                    ok = True
                    why = 'Vec::push at bb%d is dominated by the Ok edge (bb%d) of %s()?' % (g['bb'], cont, short(chk))
            rep.add('C14.R2', 'C14.R2:%s:check-dominates-growth' % prim, ok, why, prim, g['at'])
        # boundary inside the check fn
        check_boundary(rep, fx, cf, chk, fld, limf, size_kind='len')
        # R4: nothing written before the Err edge
        no_write_before(rep, fx, W, pf, prim, [bb for bb, _ in chk_calls], 'C14.R4:%s' % prim)
        no_write_in(rep, fx, W, chk, 'C14.R4:%s' % chk)

    # ---------------- R2 for the instruction meter
    mf = fx.need('state::State::insn_meter_increase')
    check_boundary(rep, fx, mf, 'state::State::insn_meter_increase', 'insn_meter', 'insn_limit', size_kind='field')
    # increment must be on the non-error side and the Err must not follow the increment
    incs = [w for w in W.get('state::State::insn_meter_increase', []) if w['field'][0] == 'insn_meter']
    errs = [(bb, i) for (bb, i, cls, d) in return_defs(mf) if cls == 'err']
    for w in incs:
        after_err = any(w['bb'] in blocks_reaching(mf, {eb}) and not mf.dominates(eb, w['bb']) and eb != w['bb'] and
                        _reaches(mf, w['bb'], eb) for eb, _ in errs)
        rep.add('C14.R2', 'C14.R2:insn_meter_increase:increment-after-check', not after_err,
                'the increment is not followed by the limit error (the failing instruction is not counted, so it can be retried)'
                if not after_err else 'the Err return is reachable after the increment: a refused instruction is still counted',
                mf.name, w['at'])
    # the increment must be +1
    for w in incs:
        st = w.get('stmt')
        ok = False
        if st is not None:
            e = mf.expr_of_rvalue(st['rv'], 0, frozenset())
            txt = expr_str(e)
            ok = ('AddWithOverflow' in txt or 'Add(' in txt) and 'const 1' in txt.replace('1)', 'const 1)') or \
                any(isinstance(x, tuple) and x[0] == 'bin' and x[1] in ('Add', 'AddWithOverflow', 'AddUnchecked') and
                    any(isinstance(y, tuple) and y[0] == 'const' and y[1].get('v') == 1 for y in (x[2], x[3]))
                    for x in expr_walk(e))
        rep.add('C14.R2', 'C14.R2:insn_meter_increase:step-is-one', ok,
                'meter advances by exactly 1 per instruction' if ok else 'meter increment is not `+ 1`', mf.name, w['at'])

    # ---------------- R3
    far = fx.need('state::State::fetch_and_run')
    meter_calls = [(bb, t) for bb, t in far.calls() if callee_of(t) == 'state::State::insn_meter_increase']
    cont = None
    for bb, t in meter_calls:
        cont = try_continue_block(far, bb)
    if cont is None:
        rep.add('C14.R3', 'C14.R3:fetch_and_run:meter-call', False,
                'fetch_and_run has no `?`-propagated call to insn_meter_increase', far.name, far.j['span'])
    else:
        # every call that can change state (anything but the pure accessor State::ip) must be dominated
        n = 0
        bad = []
        for bb, t in far.calls():
            c = callee_of(t)
            if c in ('state::State::ip', 'state::State::insn_meter_increase') or c in TRY_BRANCH:
                continue
            if c is not None and c.startswith('<') and 'from_residual' in c:
                continue
            n += 1
            if not far.dominates(cont, bb):
                bad.append((bb, c or 'indirect call'))
        rep.add('C14.R3', 'C14.R3:fetch_and_run:meter-dominates-dispatch', not bad,
                'insn_meter_increase()? (Ok edge bb%d) dominates all %d calls of the dispatch, including the XfnPtr call' % (cont, n)
                if not bad else 'calls not dominated by the meter check: %s' % ', '.join('bb%d %s' % (b, short(c)) for b, c in bad[:5]),
                far.name, far.at(meter_calls[0][0]))
        # Opcode switch dominated
        sw = [bb for bb in far.reachable_blocks() if _switch_on_adt(far, bb, 'opcodes::Opcode')]
        okd = bool(sw) and all(far.dominates(cont, b) for b in sw)
        rep.add('C14.R3', 'C14.R3:fetch_and_run:meter-dominates-opcode-switch', okd,
                'the Opcode switch (bb%s) is dominated by the meter check' % sw if okd else
                'Opcode switch not found or not dominated by the meter check', far.name, far.j['span'])
    # who dispatches: indirect calls through XfnType, and State-mutating Opcode switches
    n_ind = 0
    for fn, f in sorted(fx.fns.items()):
        for bb, t in f.calls():
            if callee_of(t) is None:
                fe = f.expr_of_operand(t['func'])
                fty = f.ty(op_place(t['func'])['t']) if op_place(t['func']) else ''
                if 'state::State' in fty and 'fn(' in fty:
                    n_ind += 1
                    ok = fn in ('state::State::fetch_and_run', 'state::State::run_immediate')
                    rep.add('C14.R3', 'C14.R3:xfn-dispatch:%s' % fn, ok,
                            'XfnPtr dispatch in the metered interpreter loop / build-time immediate runner' if ok else
                            '%s calls a native word through XfnPtr outside fetch_and_run: unmetered execution' % fn,
                            fn, t.get('at'))
    rep.floor('C14.R3 XfnPtr dispatch sites', n_ind, 2)
    # callers of fetch_and_run
    allowed_callers = {'state::State::run', 'state::State::next', 'state::State::fetch_and_run'}
    for caller in sorted(fx.callers().get('state::State::fetch_and_run', ())):
        base = caller.split('::{closure')[0]
        ok = base in allowed_callers
        rep.add('C14.R3', 'C14.R3:caller-of-fetch_and_run:%s' % caller, ok,
                'drives the metered step function' if ok else '%s calls fetch_and_run directly' % caller, caller,
                fx.fns[caller].j['span'] if caller in fx.fns else None, nontrivial=False)
    # R4 for fetch_and_run: nothing written before the meter Err edge
    no_write_before(rep, fx, W, far, far.name, [bb for bb, _ in meter_calls], 'C14.R4:%s' % far.name)
    # insn_meter_increase Err path: writes nothing
    errpath_no_write(rep, fx, W, mf, 'C14.R4:%s' % mf.name)
    # alloc_heap is the only caller path to heap growth; defvar & co go through it (call graph fact)
    rep.extra['registry_words'] = len(fx.registry()['words'])


def _reaches(f, a, b):
    return b in blocks_reaching_fwd(f, a)


def blocks_reaching_fwd(f, a):
    seen = set()
    st = [a]
    while st:
        x = st.pop()
        for t in f.succ(x):
            if t not in seen:
                seen.add(t)
                st.append(t)
    return seen


def _switch_on_adt(f, bb, adt):
    t = f.blocks[bb]['term']
    if t['k'] != 'switch':
        return False
    e = f.expr_of_operand(t['discr'])
    return isinstance(e, tuple) and e[0] == 'discr' and e[2] == adt


def check_boundary(rep, fx, cf, chk, fld, limf, size_kind):
    """the Err return of `cf` must be taken exactly when size >= limit"""
    errs = [(bb, i) for (bb, i, cls, d) in return_defs(cf) if cls == 'err']
    key = 'C14.R2:%s:boundary' % chk
    if not errs:
        rep.add('C14.R2', key, False, '%s has no Err return: the limit is never enforced' % short(chk), chk, cf.j['span'])
        return
    found = False
    for bb in sorted(cf.reachable_blocks()):
        br = bool_branch(cf, bb)
        if br is None:
            continue
        e, tbb, fbb = br
        c = cmp_of(e)
        if c is None:
            continue
        op, a, b, neg = c
        sa, sb = expr_str(a), expr_str(b)

        def is_size(s):
            if size_kind == 'len':
                return ('.%s' % fld) in s and 'len(' in s
            return ('.%s' % fld) in s

        def is_limit(s):
            return ('.%s' % limf) in s
        if not ((is_size(sa) and is_limit(sb)) or (is_size(sb) and is_limit(sa))):
            continue
        found = True
        # normalise to size OP limit
        if is_size(sb):
            op = {'Ge': 'Le', 'Le': 'Ge', 'Gt': 'Lt', 'Lt': 'Gt', 'Eq': 'Eq', 'Ne': 'Ne'}[op]
            sa, sb = sb, sa
        if neg:
            op = {'Ge': 'Lt', 'Lt': 'Ge', 'Gt': 'Le', 'Le': 'Gt', 'Eq': 'Ne', 'Ne': 'Eq'}[op]
        err_on_true = any(cf.dominates(tbb, eb) for eb, _ in errs)
        err_on_false = any(cf.dominates(fbb, eb) for eb, _ in errs)
        # error taken iff size >= limit
        exact = (op == 'Ge' and err_on_true and not err_on_false) or (op == 'Lt' and err_on_false and not err_on_true)
        # also the limit operand must be unwrap_or(MAX): a None limit never errs
        why = ('Err iff %s %s %s (pre-growth size): exactly "never more than the limit"' % (sa, '>=', sb)) if exact else \
            ('Err is taken on `%s %s %s` (%s edge): not the exact `size >= limit` boundary' %
             (sa, op, sb, 'true' if err_on_true else 'false' if err_on_false else 'neither'))
        rep.add('C14.R2', key, exact, why, chk, cf.at(bb))
    if not found:
        rep.add('C14.R2', key, False, 'no comparison of %s size against %s found in %s' % (fld, limf, short(chk)), chk, cf.j['span'])


def _writes_transitive(fx, W, fn, memo, stack=()):
    if fn in memo:
        return memo[fn]
    if fn in stack:
        return set()
    out = set()
    for w in W.get(fn, []):
        out.add((fn, w['field'][0], w['how']))
    for c in fx.callgraph().get(fn, ()):  # local callees only have entries
        if c in fx.fns:
            out |= _writes_transitive(fx, W, c, memo, stack + (fn,))
    memo[fn] = out
    return out


PURE_LOCAL = {'state::State::ip', 'state::State::is_recording'}


def no_write_before(rep, fx, W, pf, prim, check_bbs, keybase):
    """on every path from entry to a check call (inclusive of callee), no State write"""
    memo = {}
    for cbb in check_bbs:
        region = blocks_reaching(pf, {cbb})
        region.discard(cbb)
        bad = []
        for w in W.get(prim, []):
            if w['bb'] in region:
                bad.append('%s %s' % ('.'.join(w['field']), w['how']))
        for bb in region:
            t = pf.blocks[bb]['term']
            if t['k'] == 'call':
                c = callee_of(t)
                if c in fx.fns and c not in PURE_LOCAL:
                    ws = _writes_transitive(fx, W, c, memo)
                    if ws:
                        bad.append('call %s writes %s' % (short(c), sorted({x[1] for x in ws})))
                elif c is None:
                    bad.append('indirect call')
        rep.add('C14.R4', keybase + ':no-write-before-check', not bad,
                'no State field is written between entry and the limit check: a refused operation leaves the state as it was'
                if not bad else 'state is modified before the limit check can refuse: ' + '; '.join(bad[:4]),
                prim, pf.at(cbb))


def no_write_in(rep, fx, W, chk, keybase):
    memo = {}
    ws = _writes_transitive(fx, W, chk, memo)
    rep.add('C14.R4', keybase + ':check-is-pure', not ws,
            'the check function writes no State field' if not ws else 'the check function writes %s' % sorted(ws)[:3],
            chk, fx.fns[chk].j['span'])


def errpath_no_write(rep, fx, W, mf, keybase):
    errs = [(bb, i) for (bb, i, cls, d) in return_defs(mf) if cls == 'err']
    bad = []
    for eb, _ in errs:
        region = blocks_reaching(mf, {eb})
        for w in W.get(mf.name, []):
            if w['bb'] in region and w['bb'] != eb:
                bad.append('%s %s' % ('.'.join(w['field']), w['how']))
    rep.add('C14.R4', keybase + ':err-path-writes-nothing', not bad,
            'no write precedes the Err return' if not bad else 'writes before the Err return: ' + '; '.join(bad), mf.name,
            mf.j['span'])
