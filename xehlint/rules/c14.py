"""C14 — resource limits are hard bounds and hitting one is recoverable.

R1 who-may-grow, R2 a refusal test with the exact boundary guards every growth,
R3 every executed instruction is metered, R4 a limit hit is side-effect free.

All rules are phrased over *views* (inline.View with every local helper spliced in and correlated branches threaded), and
the anchors are found by what the code does (which function grows the stack / the heap / increments the meter), not by
function names: renaming the check functions, folding them into the primitive or factoring the comparison into a shared
`limit_reached(used, limit)` helper leaves the verdict unchanged."""
from ..core import (callee_of, expr_walk, expr_str, TRY_BRANCH, return_defs, short, op_place, MissingAnchor)
from .. import awrite, inline, stepfx
from ..pathq import blocks_reaching, exists_path_avoiding, error_blocks, edge_guards, cmp_on_side, FLIP
from ..zone import strip as zstrip

EXPLANATION = (
    "Decides the step case of the invariant 'data stack <= S, heap <= H, executed instructions <= N' from the MIR of the "
    "real build: (R1) every growing write to State.data_stack / State.heap anywhere in the crate is either a reviewed "
    "exception or satisfies R2 where it stands; writes to insn_meter are the reset in set_insn_limit and the +1 inside the "
    "step function; the three limit fields are written by their setters only; (R2) each growth is reached only over the "
    "false edge of a comparison `size >= limit` between the pre-growth size and the configured limit (exact boundary), and "
    "the true edge leads only to Err returns; (R3) the only functions that dispatch native words through XfnPtr are "
    "fetch_and_run / run_immediate, fetch_and_run is called by run/next only, and inside it the meter test-and-increment "
    "dominates the Opcode switch and every state-changing call; (R4) no State field is written on any path from the entry of "
    "a metered primitive to its refusal. Not decided: behaviour when a limit is lowered below the current size; limits "
    "inside reverse_changes (it only re-inserts what a logged pop removed).")
RULE_TEXT = ("instances = (field, writer function, write kind) triples found by the A-WRITE analysis over all bodies, plus per "
             "growth site: the guarding comparison (operator, operands, polarity read from MIR), the refusing side, the writes "
             "before it; non-trivial = needed an edge-dominance / path / provenance query rather than a table lookup")
ASSUMPTIONS = [
    "rustc MIR construction and Instance resolution are correct for the analysed build (nightly 1.97, mir-opt-level 0)",
    "std Vec/Option methods behave as documented (push grows by one, len is the length)",
    "cargo feature calc_limit is enabled (default); without it the checks are compiled out and the property is vacuous",
]

LIMITED = {
    # field: (limit field, allowed other growers with reason)
    'data_stack': ('stack_limit', {'state::State::reverse_changes': 'PushData arm re-inserts a value that a logged pop removed; cannot exceed an earlier length'}),
    'heap': ('heap_limit', {}),
}
STEP = 'state::State::fetch_and_run'


def _full_view(fx):
    # nothing is opaque except the functions the rule statement itself is about
    return inline.View(fx, vocabulary={STEP, 'state::State::run', 'state::State::next', 'state::State::run_immediate',
                                       'state::State::reverse_changes'}, depth=3, use_global=False)


def limit_guard(v, bb, size_pred, limit_field):
    """the comparison `size >= limit` whose false edge every path to bb takes: (branch block, refusing target, text) or
    (None, None, why-not)"""
    seen_any = None
    for (b2, e, side) in edge_guards(v, bb):
        c = cmp_on_side(e, side)
        if c is None:
            continue
        op, a, b = c
        sa, sb = expr_str(zstrip(a), -14), expr_str(zstrip(b), -14)
        if ('.' + limit_field) in sa and size_pred(sb):
            op, a, b, sa, sb = FLIP[op], b, a, sb, sa
        if ('.' + limit_field) in sb and not size_pred(sa):
            seen_any = seen_any or ('%s %s %s [left side is not the whole size]' % (sa[:60], op, sb[:40]))
            continue
        if not (size_pred(sa) and ('.' + limit_field) in sb):
            continue
        seen_any = '%s %s %s' % (sa[:50], op, sb[:50])
        if op == 'Lt':
            t = v.blocks[b2]['term']
            listed = dict((val, tg) for val, tg in t['targets'])
            false_t = listed.get(0)
            refusing = t['otherwise'] if side is False else false_t
            unlimited = 'unwrap_or' in sb or 'MAX' in sb or '18446744073709551615' in sb
            return b2, refusing, 'growth only if %s < %s%s' % (sa[:40], sb[:60], '' if unlimited else ' (no unwrap_or(MAX): an unset limit?)')
    return None, None, ('the limit is tested as `%s`, not as the exact `whole size < limit`' % seen_any) if seen_any else \
        'no comparison of the pre-growth size with State.%s guards the growth' % limit_field


def run(rep, facts, tier):
    fx = facts['dev']
    rep.rule('C14.R1', 'who may grow: every growing write to data_stack / heap is metered where it stands (R2) or a reviewed exception; insn_meter and the limit fields have fixed writers')
    rep.rule('C14.R2', 'a refusal test with the exact boundary guards every growth: growth only if pre-growth size < limit, the other side only fails')
    rep.rule('C14.R3', 'every executed instruction is metered: single dispatch function, the meter test-and-increment dominates the dispatch')
    rep.rule('C14.R4', 'hitting a limit changes nothing: no State write before the refusal')
    tracked = awrite.state_tracked(fx)
    W = awrite.all_field_writes(fx, 'state', tracked)
    V = _full_view(fx)
    Vg = inline.View(fx)

    def helper(fn):
        return Vg.transparent(fn) and bool(fx.callers().get(fn))

    # ---------------- R1 + R2 + R4 for stack and heap: look at every function that is not an unnamed helper, through its view
    n_r1 = 0
    n_growth = 0
    owners = {fld: set() for fld in LIMITED}
    for fn in sorted(fx.fns):
        if helper(fn):
            continue
        own = W.get(fn, [])
        reach_helpers = [g for g in fx.reachable_from([fn]) if g != fn and g in fx.fns and helper(g)] if not own else []
        if not any(w['field'][0] in LIMITED or w['field'][0] in ('insn_meter', 'insn_limit', 'stack_limit', 'heap_limit') for w in own) and \
                not any(any(w['field'][0] in LIMITED for w in W.get(g, [])) for g in reach_helpers):
            continue
        v = V(fn)
        ws = awrite.field_writes(fx, v, tracked) if v is not fx.fns[fn] else own
        for w in ws:
            fld = w['field'][0]
            how = w['how']
            inl = (w.get('stmt') or w.get('term') or {}).get('inl')
            if inl and inl in fx.fns and not helper(inl) and inl != fn and '{closure' not in inl:
                continue          # belongs to a named function spliced into this view: judged there
            if fld in LIMITED:
                limf, allowed = LIMITED[fld]
                whole = not w.get('elem')
                grows = how.startswith('call:grow') or (whole and (how.startswith('call:unknown') or
                                                                   how.startswith('assign') and len(w['field']) == 1 or
                                                                   how.startswith('call:overwrite')))
                n_r1 += 1
                key = 'C14.R1:%s:%s:%s' % (fld, fn, how)
                if not grows:
                    rep.add('C14.R1', key, True, 'non-growing write (%s)' % how, fn, w['at'], nontrivial=False)
                    continue
                if fn in allowed:
                    rep.add('C14.R1', key, True, 'reviewed exception: ' + allowed[fn], fn, w['at'])
                    continue
                n_growth += 1
                # the whole length of the container: `len(&self.<field>)` itself, not a difference (visible depth) or other arithmetic
                size_pred = (lambda s, fld=fld: ('.' + fld) in s and 'len(' in s and not any(x in s for x in ('Sub(', 'Add(', 'Mul(', 'Div(', 'ds_len', 'data_depth')))
                gb, refusing, why = limit_guard(v, w['bb'], size_pred, limf)
                ok = gb is not None
                rep.add('C14.R1', key, ok, 'growth of %s behind its limit test (R2)' % fld if ok else
                        '%s grows/overwrites State.%s (%s) without the limit test: %s' % (short(fn), fld, how, why), fn, w['at'])
                if not ok:
                    continue
                owners[fld].add(fn)
                rep.add('C14.R2', 'C14.R2:%s:%s:check-guards-growth' % (fn, fld), True, why, fn, w['at'])
                # the refusing side only fails
                rets = set(v.return_blocks())
                errs = error_blocks(v)
                p = exists_path_avoiding(v, refusing, lambda b: b in rets, errs) if refusing not in errs else None
                rep.add('C14.R2', 'C14.R2:%s:%s:boundary' % (fn, fld), p is None,
                        'Err iff pre-growth size >= limit: exactly "never more than the limit"' if p is None else
                        'on the `size >= limit` side %s can still return without an error (bb%s)' % (short(fn), '->bb'.join(map(str, p[:8]))),
                        fn, v.at(gb))
                # R4: nothing written on the way to the refusal
                region = blocks_reaching(v, {gb})
                bad = sorted({'%s %s' % ('.'.join(x['field']), x['how']) for x in ws if x['bb'] in region and x['bb'] != w['bb']})
                ind = [b for b in region if v.blocks[b]['term']['k'] == 'call' and callee_of(v.blocks[b]['term']) is None]
                rep.add('C14.R4', 'C14.R4:%s:%s:no-write-before-check' % (fn, fld), not bad and not ind,
                        'no State field is written between entry and the limit test: a refused operation leaves the state as it was'
                        if not bad and not ind else 'state is modified before the limit test can refuse: ' + '; '.join(bad[:4] + ['indirect call'] * bool(ind)),
                        fn, v.at(gb))
            elif fld == 'insn_meter':
                n_r1 += 1
                st = w.get('stmt')
                is_reset = st is not None and st['rv']['k'] == 'use' and 'c' in st['rv']['o'] and st['rv']['o']['c'].get('v') == 0
                if fn == STEP:
                    continue      # judged in R3
                ok = is_reset and fn == 'state::State::set_insn_limit'
                rep.add('C14.R1', 'C14.R1:insn_meter:%s:%s' % (fn, how), ok, 'reset to 0 when a new limit is set' if ok else
                        '%s writes State.insn_meter outside the step function: instructions are counted where not every driver passes, '
                        'or the count can be forged' % short(fn), fn, w['at'])
            elif fld in ('insn_limit', 'stack_limit', 'heap_limit'):
                n_r1 += 1
                setter = 'state::State::set_' + fld
                ok = fn == setter
                rep.add('C14.R1', 'C14.R1:%s:%s:%s' % (fld, fn, how), ok,
                        'limit written by its setter' if ok else '%s writes State.%s outside its setter' % (fn, fld),
                        fn, w['at'], nontrivial=False)
    rep.floor('C14.R1 writers of limited fields', n_r1, 10)
    rep.floor('C14.R2 metered growth sites', n_growth, 2)
    for fld in LIMITED:
        rep.add('C14.R2', 'C14.R2:%s:has-metered-primitive' % fld, bool(owners[fld]),
                'growth of %s happens in %s' % (fld, sorted(short(o) for o in owners[fld])) if owners[fld] else
                'no function grows State.%s behind a limit test' % fld, None, None, nontrivial=False)

    # ---------------- R2/R3 for the instruction meter: inside the step function
    fx.need(STEP)
    far = V(STEP)
    ws = awrite.field_writes(fx, far, tracked)
    incs = [w for w in ws if w['field'][0] == 'insn_meter']
    if not incs:
        rep.add('C14.R3', 'C14.R3:fetch_and_run:meter-call', False,
                'fetch_and_run does not count the instruction it executes (no write to insn_meter on its paths): a driver that calls it '
                'directly runs unmetered', STEP, far.j['span'])
    for w in incs:
        st = w.get('stmt')
        one = False
        if st is not None:
            e = far.expr_of_rvalue(st['rv'], 0, frozenset())
            one = any(isinstance(x, tuple) and x[0] == 'bin' and x[1] in ('Add', 'AddWithOverflow', 'AddUnchecked') and
                      any(isinstance(y, tuple) and y[0] == 'const' and y[1].get('v') == 1 for y in (x[2], x[3])) for x in expr_walk(e))
        rep.add('C14.R2', 'C14.R2:insn_meter:step-is-one', one, 'meter advances by exactly 1 per instruction' if one else 'meter increment is not `+ 1`',
                STEP, w['at'])
        gb, refusing, why = limit_guard(far, w['bb'], lambda s: '.insn_meter' in s, 'insn_limit')
        rep.add('C14.R2', 'C14.R2:insn_meter:check-guards-increment', gb is not None,
                why if gb is not None else 'the instruction counter is advanced without the exact `meter < limit` test: %s' % why, STEP, w['at'])
        if gb is None:
            continue
        rets = set(far.return_blocks())
        errs = error_blocks(far)
        p = exists_path_avoiding(far, refusing, lambda b: b in rets, errs) if refusing not in errs else None
        rep.add('C14.R2', 'C14.R2:insn_meter:boundary', p is None,
                'Err iff instructions executed >= limit; the refused instruction is not counted' if p is None else
                'on the `meter >= limit` side the step can still complete (bb%s)' % '->bb'.join(map(str, p[:8])), STEP, far.at(gb))
        # the increment (hence the test) dominates the dispatch
        n = 0
        bad = []
        for bb, t in far.calls():
            c = callee_of(t)
            if bb == w['bb'] or c in TRY_BRANCH or c in ('state::State::ip',):
                continue
            if c is not None and 'from_residual' in c:
                continue
            if far.blocks[bb]['term'].get('inl') and bb in blocks_reaching(far, {w['bb']}):
                continue      # part of the spliced meter helper itself (format!/error construction on the refusing side)
            n += 1
            if not far.dominates(w['bb'], bb) and bb not in blocks_reaching(far, {refusing}) and not _only_after_refusal(far, bb, refusing):
                bad.append((bb, c or 'indirect call'))
        rep.add('C14.R3', 'C14.R3:fetch_and_run:meter-dominates-dispatch', not bad,
                'the meter test-and-increment dominates all %d calls of the dispatch, including the XfnPtr call' % n
                if not bad else 'calls not dominated by the meter: %s' % ', '.join('bb%d %s' % (b, short(c)) for b, c in bad[:5]), STEP, w['at'])
        sw = [bb for bb in far.reachable_blocks() if _switch_on_adt(far, bb, 'opcodes::Opcode')]
        okd = bool(sw) and all(far.dominates(w['bb'], b) for b in sw)
        rep.add('C14.R3', 'C14.R3:fetch_and_run:meter-dominates-opcode-switch', okd,
                'the Opcode switch is dominated by the meter' if okd else 'Opcode switch not found or not dominated by the meter', STEP, far.j['span'])
        region = blocks_reaching(far, {gb})
        badw = sorted({'%s %s' % ('.'.join(x['field']), x['how']) for x in ws if x['bb'] in region and x is not w})
        rep.add('C14.R4', 'C14.R4:%s:no-write-before-check' % STEP, not badw,
                'nothing is written before the meter can refuse the instruction' if not badw else 'state is modified before the meter test: %s' % badw[:3],
                STEP, far.at(gb))

    # who dispatches: indirect calls through XfnType
    n_ind = 0
    for fn, f in sorted(fx.fns.items()):
        for bb, t in f.calls():
            if callee_of(t) is None:
                fty = f.ty(op_place(t['func'])['t']) if op_place(t['func']) else ''
                if 'state::State' in fty and 'fn(' in fty:
                    n_ind += 1
                    ok = fn in (STEP, 'state::State::run_immediate')
                    rep.add('C14.R3', 'C14.R3:xfn-dispatch:%s' % fn, ok,
                            'XfnPtr dispatch in the metered interpreter loop / build-time immediate runner' if ok else
                            '%s calls a native word through XfnPtr outside fetch_and_run: unmetered execution' % fn, fn, t.get('at'))
    rep.floor('C14.R3 XfnPtr dispatch sites', n_ind, 2)
    allowed_callers = {'state::State::run', 'state::State::next', STEP}
    for caller in sorted(stepfx.callers_seen_through(fx, Vg, STEP)):
        base = caller.split('::{closure')[0]
        ok = base in allowed_callers
        rep.add('C14.R3', 'C14.R3:caller-of-fetch_and_run:%s' % caller, ok,
                'drives the metered step function' if ok else '%s calls fetch_and_run directly' % caller, caller,
                fx.fns[caller].j['span'] if caller in fx.fns else None, nontrivial=False)
    rep.extra['registry_words'] = len(fx.registry()['words'])


def _only_after_refusal(f, bb, refusing):
    """bb lies on the refusing side only (building the error message)"""
    seen = set()
    st = [refusing]
    while st:
        x = st.pop()
        if x in seen:
            continue
        seen.add(x)
        st.extend(f.succ(x))
    return bb in seen


def _switch_on_adt(f, bb, adt):
    t = f.blocks[bb]['term']
    if t['k'] != 'switch':
        return False
    e = f.expr_of_operand(t['discr'])
    return isinstance(e, tuple) and e[0] == 'discr' and e[2] == adt
