"""xehlint core: loads the MIR fact files written by /verif/driver and offers
the generic analyses of DESIGN.md §2.2 (CFG, dominators, def-use provenance,
path queries, call graph, word registry).  Python 3 stdlib only."""
import json
import os
import sys
from collections import defaultdict, deque

sys.setrecursionlimit(10000)


# ----------------------------------------------------------------- printing
def place_str(p):
    s = '_%d' % p['l']
    for e in p['p']:
        if e == '*':
            s = '(*%s)' % s
        elif isinstance(e, dict):
            if 'f' in e:
                s += '.' + e['f']
            elif 'as' in e:
                s = '(%s as %s)' % (s, e['as'])
            elif 'ix' in e:
                s += '[_%d]' % e['ix']
            elif 'cix' in e:
                s += '[%s%d]' % ('-' if e.get('from_end') else '', e['cix'])
            else:
                s += '[..]'
        else:
            s += str(e)
    return s


def place_fields(p):
    """list of field names along the projection (derefs/downcasts skipped)"""
    out = []
    for e in p['p']:
        if isinstance(e, dict) and 'f' in e:
            out.append(e['f'])
    return out


def const_str(c):
    for k in ('rfn', 'fn', 'closure', 'str', 'cpath'):
        if k in c:
            return str(c[k])
    if 'v' in c:
        return str(c['v']) if c['v'] != -1 or 'us' not in c else c['us']
    return c.get('txt', '?')


def op_str(o):
    if 'cp' in o:
        return place_str(o['cp'])
    if 'mv' in o:
        return 'move ' + place_str(o['mv'])
    if 'c' in o:
        return 'const ' + const_str(o['c'])
    return str(o)


def op_place(o):
    return o.get('cp') or o.get('mv')


def op_const(o):
    return o.get('c')


def callee_of(term):
    """resolved def-path of a call terminator's callee, or None if indirect"""
    if term['k'] not in ('call', 'tailcall'):
        return None
    c = term['func'].get('c')
    if not c:
        return None
    return c.get('rfn') or c.get('fn')


def callee_unresolved(term):
    c = term['func'].get('c')
    if not c:
        return None
    return c.get('fn')


# ----------------------------------------------------------------- function
ADTS = {}


class Fn:
    def __init__(self, name, j, types):
        self.name = name
        self.j = j
        self.types = types
        self.blocks = j['blocks']
        self.locals = j['locals']
        self.argc = j['argc']
        self.nblocks = len(self.blocks)
        self._succ = None
        self._pred = None
        self._dom = None
        self._pdom = None
        self._defs = None
        self._ememo = {}
        self._cyc = 0
        self._orig = None

    # -- basic
    def ty(self, ix):
        return self.types[ix]

    def local_ty(self, l):
        return self.types[self.locals[l]['t']]

    def local_name(self, l):
        return self.locals[l].get('n')

    def at(self, bb, i=None):
        b = self.blocks[bb]
        if i is None or i >= len(b['stmts']):
            return b['term'].get('at', '?')
        return b['stmts'][i].get('at', '?')

    def events(self, bb):
        """statements followed by the terminator"""
        b = self.blocks[bb]
        return b['stmts'] + [b['term']]

    def succ_edges(self, bb, unwind=False):
        """list of (target_bb, label)"""
        t = self.blocks[bb]['term']
        k = t['k']
        out = []
        if k == 'goto':
            out.append((t['target'], 'goto'))
        elif k == 'switch':
            for v, b in t['targets']:
                out.append((b, v))
            out.append((t['otherwise'], 'otherwise'))
        elif k in ('call', 'drop', 'assert'):
            if t.get('target') is not None:
                out.append((t['target'], 'ok'))
            if unwind and t.get('unwind') is not None:
                out.append((t['unwind'], 'unwind'))
        return out

    def succ(self, bb):
        if self._succ is None:
            self._succ = [[t for t, _ in self.succ_edges(b)] for b in range(self.nblocks)]
        return self._succ[bb]

    def pred(self, bb):
        if self._pred is None:
            self._pred = [[] for _ in range(self.nblocks)]
            for b in range(self.nblocks):
                for t in self.succ(b):
                    self._pred[t].append(b)
        return self._pred[bb]

    def reachable_blocks(self):
        seen = {0}
        dq = deque([0])
        while dq:
            b = dq.popleft()
            for t in self.succ(b):
                if t not in seen:
                    seen.add(t)
                    dq.append(t)
        return seen

    def return_blocks(self):
        return [b for b in self.reachable_blocks() if self.blocks[b]['term']['k'] == 'return']

    # -- dominators (iterative, on normal edges)
    def dominators(self):
        if self._dom is not None:
            return self._dom
        reach = self.reachable_blocks()
        order = self._rpo()
        dom = {b: None for b in reach}
        dom[0] = {0}
        allb = set(reach)
        changed = True
        while changed:
            changed = False
            for b in order:
                if b == 0:
                    continue
                ps = [p for p in self.pred(b) if p in reach and dom[p] is not None]
                if not ps:
                    continue
                new = set(allb)
                for p in ps:
                    new &= dom[p]
                new = new | {b}
                if new != dom[b]:
                    dom[b] = new
                    changed = True
        self._dom = dom
        return dom

    def _rpo(self):
        seen = set()
        out = []

        def dfs(b):
            stack = [(b, iter(self.succ(b)))]
            seen.add(b)
            while stack:
                n, it = stack[-1]
                adv = False
                for t in it:
                    if t not in seen:
                        seen.add(t)
                        stack.append((t, iter(self.succ(t))))
                        adv = True
                        break
                if not adv:
                    out.append(n)
                    stack.pop()
        dfs(0)
        out.reverse()
        return out

    def dominates(self, a, b):
        d = self.dominators().get(b)
        return d is not None and a in d

    def postdominators(self):
        """post-dominators w.r.t. normal return (blocks that cannot reach a
        return have pdom = None)"""
        if self._pdom is not None:
            return self._pdom
        reach = self.reachable_blocks()
        EXIT = -1
        rets = self.return_blocks()
        # blocks that can reach a return
        can = set(rets)
        dq = deque(rets)
        while dq:
            b = dq.popleft()
            for p in self.pred(b):
                if p in reach and p not in can:
                    can.add(p)
                    dq.append(p)
        nodes = set(can) | {EXIT}
        pdom = {b: set(nodes) for b in can}
        pdom[EXIT] = {EXIT}
        changed = True
        while changed:
            changed = False
            for b in can:
                if b in rets:
                    ss = [EXIT]
                else:
                    ss = [s for s in self.succ(b) if s in can]
                new = set(nodes)
                for s_ in ss:
                    new &= pdom[s_]
                new |= {b}
                if new != pdom[b]:
                    pdom[b] = new
                    changed = True
        self._pdom = pdom
        return pdom

    def obb(self, bb):
        """the block a duplicated block was copied from (views duplicate blocks when threading jumps); itself otherwise.
        Call expressions carry this id, so that a value computed in two copies of one block is one expression."""
        if self._orig is None:
            self._orig = {i: b.get('orig', i) for i, b in enumerate(self.blocks)}
        return self._orig.get(bb, bb)

    # -- definitions
    def defs(self):
        """local -> list of (bb, idx, kind, payload); idx == len(stmts) for the
        terminator.  Only whole-local definitions (no projection)."""
        if self._defs is not None:
            return self._defs
        d = defaultdict(list)
        for bb in self.reachable_blocks():
            b = self.blocks[bb]
            for i, st in enumerate(b['stmts']):
                if st['k'] == 'assign' and not st['lhs']['p']:
                    d[st['lhs']['l']].append((bb, i, 'assign', st['rv']))
            t = b['term']
            if t['k'] == 'call' and not t['dest']['p']:
                d[t['dest']['l']].append((bb, len(b['stmts']), 'call', t))
        self._defs = d
        return d

    def partial_writes(self, l):
        """assignments to projections of local l: list of (bb, idx, stmt)"""
        out = []
        for bb in self.reachable_blocks():
            for i, st in enumerate(self.blocks[bb]['stmts']):
                if st['k'] == 'assign' and st['lhs']['p'] and st['lhs']['l'] == l:
                    out.append((bb, i, st))
        return out

    def calls(self):
        """yield (bb, term) for all call terminators in reachable blocks"""
        for bb in sorted(self.reachable_blocks()):
            t = self.blocks[bb]['term']
            if t['k'] in ('call', 'tailcall'):
                yield bb, t

    def calls_to(self, pred):
        for bb, t in self.calls():
            c = callee_of(t)
            if c is not None and pred(c):
                yield bb, t

    # -- provenance
    def expr_of_operand(self, o, depth=0, seen=None):
        if 'c' in o:
            return ('const', o['c'])
        p = op_place(o)
        if p is None:
            return ('unknown', str(o))
        return self.expr_of_place(p, depth, seen)

    def expr_of_place(self, p, depth=0, seen=None):
        base = self.expr_of_local(p['l'], depth, seen)
        if not p['p']:
            return base
        keys = []
        for e in p['p']:
            if isinstance(e, dict) and 'ix' in e:
                ie = self.expr_of_local(e['ix'], depth + 1, seen)
                if isinstance(ie, tuple) and ie[0] == 'const' and 'v' in ie[1]:
                    keys.append('[%s]' % ie[1]['v'])
                else:
                    keys.append('[]')
            else:
                keys.append(_proj_key(e))
        return ('proj', base, tuple(keys))

    def expr_of_local(self, l, depth=0, seen=None):
        if seen is None:
            seen = frozenset()
        if 1 <= l <= self.argc:
            # arguments may be re-assigned, but that is rare; treat as arg if no defs
            if not self.defs().get(l):
                return ('arg', l)
        if l in seen or depth > 40:
            self._cyc += 1
            return ('cycle', l)
        if l in self._ememo:
            return self._ememo[l]
        cyc0 = self._cyc
        ds = self.defs().get(l, [])
        if not ds:
            if 1 <= l <= self.argc:
                return ('arg', l)
            return ('undef', l)
        seen = seen | {l}
        exprs = []
        for (bb, i, kind, payload) in ds:
            if kind == 'call':
                t = payload
                c = callee_of(t)
                args = tuple(self.expr_of_operand(a, depth + 1, seen) for a in t['args'])
                if c is None:
                    fe = self.expr_of_operand(t['func'], depth + 1, seen)
                    exprs.append(('icall', fe, args, self.obb(bb)))
                else:
                    exprs.append(('call', c, args, self.obb(bb)))
            else:
                exprs.append(self.expr_of_rvalue(payload, depth + 1, seen, bb))
        # identical alternatives (blocks duplicated by drop elaboration or by jump threading in a view) are one
        uniq = []
        for e in exprs:
            if not any(e is u or e == u for u in uniq):
                uniq.append(e)
        res = uniq[0] if len(uniq) == 1 else ('phi', tuple(uniq))
        if self._cyc == cyc0:
            self._ememo[l] = res      # no cycle cut inside: the expression does not depend on the caller's context
        return res

    def expr_of_rvalue(self, rv, depth, seen, bb=None):
        k = rv['k']
        if k == 'use':
            return self.expr_of_operand(rv['o'], depth, seen)
        if k == 'ref':
            return ('ref', rv['mut'], self.expr_of_place(rv['p'], depth, seen))
        if k == 'rawptr':
            return ('rawptr', rv['mut'], self.expr_of_place(rv['p'], depth, seen))
        if k == 'bin':
            return ('bin', rv['op'], self.expr_of_operand(rv['a'], depth, seen),
                    self.expr_of_operand(rv['b'], depth, seen))
        if k == 'un':
            return ('un', rv['op'], self.expr_of_operand(rv['a'], depth, seen))
        if k == 'cast':
            return ('cast', rv['ck'], self.expr_of_operand(rv['o'], depth, seen), rv['to'])
        if k == 'discr':
            return ('discr', self.expr_of_place(rv['p'], depth, seen), rv.get('adt'))
        if k == 'agg':
            fs = tuple(self.expr_of_operand(f, depth, seen) for f in rv['fields'])
            if rv['ak'] == 'adt':
                return ('agg', rv['adt'], rv['variant'], fs)
            if rv['ak'] == 'closure':
                return ('closure', rv['closure'], fs)
            return ('agg', rv['ak'], '', fs)
        if k == 'repeat':
            return ('repeat', self.expr_of_operand(rv['o'], depth, seen))
        return ('unknown', rv.get('txt', k))


def _proj_key(e):
    if e == '*':
        return '*'
    if isinstance(e, dict):
        if 'f' in e:
            return e['f']
        if 'as' in e:
            return 'as ' + e['as']
        if 'ix' in e:
            return '[]'
        if 'cix' in e:
            return '[%s%d]' % ('-' if e.get('from_end') else '', e['cix'])
        return '[..]'
    return str(e)


# --------------------------------------------------------------- expr utils
def expr_walk(e):
    """yield every sub-expression"""
    stack = [e]
    while stack:
        x = stack.pop()
        yield x
        if not isinstance(x, tuple):
            continue
        tag = x[0]
        if tag in ('const', 'arg', 'undef', 'cycle', 'unknown'):
            continue
        if tag == 'proj':
            stack.append(x[1])
        elif tag in ('ref', 'rawptr'):
            stack.append(x[2])
        elif tag == 'bin':
            stack.extend([x[2], x[3]])
        elif tag == 'un':
            stack.append(x[2])
        elif tag == 'cast':
            stack.append(x[2])
        elif tag == 'discr':
            stack.append(x[1])
        elif tag == 'agg':
            stack.extend(x[3])
        elif tag == 'closure':
            stack.extend(x[2])
        elif tag == 'repeat':
            stack.append(x[1])
        elif tag == 'call':
            stack.extend(x[2])
        elif tag == 'icall':
            stack.append(x[1])
            stack.extend(x[2])
        elif tag == 'phi':
            stack.extend(x[1])


def expr_subst_args(e, actuals):
    """replace ('arg', k) by actuals[k-1] (inter-procedural substitution)"""
    if not isinstance(e, tuple):
        return e
    tag = e[0]
    r = lambda x: expr_subst_args(x, actuals)
    if tag == 'arg':
        k = e[1] - 1
        return actuals[k] if 0 <= k < len(actuals) else e
    if tag in ('const', 'undef', 'cycle', 'unknown'):
        return e
    if tag == 'proj':
        return ('proj', r(e[1]), e[2])
    if tag in ('ref', 'rawptr'):
        return (tag, e[1], r(e[2]))
    if tag == 'bin':
        return ('bin', e[1], r(e[2]), r(e[3]))
    if tag == 'un':
        return ('un', e[1], r(e[2]))
    if tag == 'cast':
        return ('cast', e[1], r(e[2]), e[3])
    if tag == 'discr':
        return ('discr', r(e[1]), e[2])
    if tag == 'agg':
        return ('agg', e[1], e[2], tuple(r(x) for x in e[3]))
    if tag == 'closure':
        return ('closure', e[1], tuple(r(x) for x in e[2]))
    if tag == 'repeat':
        return ('repeat', r(e[1]))
    if tag == 'call':
        return ('call', e[1], tuple(r(x) for x in e[2]), e[3])
    if tag == 'icall':
        return ('icall', r(e[1]), tuple(r(x) for x in e[2]), e[3])
    if tag == 'phi':
        return ('phi', tuple(r(x) for x in e[1]))
    return e



def expr_children_map(e, r):
    """rebuild e with r applied to each child expression"""
    if not isinstance(e, tuple):
        return e
    tag = e[0]
    if tag in ('arg', 'const', 'undef', 'cycle', 'unknown'):
        return e
    if tag == 'proj':
        return ('proj', r(e[1]), e[2])
    if tag in ('ref', 'rawptr'):
        return (tag, e[1], r(e[2]))
    if tag == 'bin':
        return ('bin', e[1], r(e[2]), r(e[3]))
    if tag == 'un':
        return ('un', e[1], r(e[2]))
    if tag == 'cast':
        return ('cast', e[1], r(e[2]), e[3])
    if tag == 'discr':
        return ('discr', r(e[1]), e[2])
    if tag == 'agg':
        return ('agg', e[1], e[2], tuple(r(x) for x in e[3]))
    if tag == 'closure':
        return ('closure', e[1], tuple(r(x) for x in e[2]))
    if tag == 'repeat':
        return ('repeat', r(e[1]))
    if tag == 'call':
        return ('call', e[1], tuple(r(x) for x in e[2]), e[3])
    if tag == 'icall':
        return ('icall', r(e[1]), tuple(r(x) for x in e[2]), e[3])
    if tag == 'phi':
        return ('phi', tuple(r(x) for x in e[1]))
    return e


def simplify(e):
    """resolve projections of known aggregates: `(Ok(v)? )` -> v, `(a, b).1` -> b.  Alternatives of a phi that
    cannot have the projected variant (from_residual results under `as Continue`, other variants of an
    aggregate) are dropped; anything not understood is left as it is."""
    if not isinstance(e, tuple):
        return e
    e = expr_children_map(e, simplify)
    if e[0] != 'proj':
        return e
    base, path = e[1], tuple(e[2])
    while isinstance(base, tuple) and base[0] == 'proj':
        base, path = base[1], tuple(base[2]) + path
    while path:
        nb = _proj_step(base, path)
        if nb is None:
            break
        base, path = nb
    return ('proj', base, path) if path else base


def _dedupe(xs):
    seen, out = set(), []
    for x in xs:
        k = repr(x)
        if k not in seen:
            seen.add(k)
            out.append(x)
    return tuple(out)


_VARIANT_OF_TRY = {'as Continue': ('Ok', 'Some'), 'as Break': ('Err', 'None')}


def _proj_step(base, path):
    if not isinstance(base, tuple):
        return None
    if base[0] == 'phi':
        outs = []
        for alt in base[1]:
            r = _proj_step(alt, path)
            if r == 'impossible':
                continue
            if r is None:
                return None
            outs.append(r)
        if not outs:
            return None
        rests = {r[1] for r in outs}
        if len(rests) != 1:
            return None
        vals = _dedupe([r[0] for r in outs])
        return (vals[0] if len(vals) == 1 else ('phi', vals)), outs[0][1]
    if base[0] == 'call' and base[1] in TRY_BRANCH and len(path) >= 2 and path[0] in _VARIANT_OF_TRY and path[1] == '0':
        # branch(x) as Continue .0  ==  payload of the Ok/Some alternatives of x
        x = base[2][0]
        alts = x[1] if isinstance(x, tuple) and x[0] == 'phi' else (x,)
        vals = []
        for a in alts:
            if isinstance(a, tuple) and a[0] == 'agg' and a[1] in ('core::result::Result', 'core::option::Option'):
                if a[2] in _VARIANT_OF_TRY[path[0]]:
                    if len(a[3]) != 1:
                        return None
                    vals.append(a[3][0])
            elif isinstance(a, tuple) and a[0] == 'call' and a[1] in FROM_RESIDUAL:
                if path[0] == 'as Continue':
                    continue
                return None
            else:
                return None
        if not vals:
            return None
        vals = _dedupe(vals)
        return (vals[0] if len(vals) == 1 else ('phi', vals)), path[2:]
    if base[0] == 'call' and base[1] in FROM_RESIDUAL and path[0] == 'as Continue':
        return 'impossible'
    if base[0] == 'closure' and str(path[0]).isdigit() and int(path[0]) < len(base[2]):
        return base[2][int(path[0])], path[1:]        # captured variable of a known closure
    if base[0] == 'proj' and all(p == '*' for p in base[2]):
        return base[1], path
    if base[0] == 'ref' and path[0] == '*':
        return base[2], path[1:]
    if base[0] == 'agg':
        if path[0].startswith('as '):
            if base[2] and path[0] != 'as ' + base[2]:
                return 'impossible'
            return base, path[1:]
        if path[0].isdigit() and int(path[0]) < len(base[3]) and base[1] in ('tuple', 'core::result::Result', 'core::option::Option'):
            return base[3][int(path[0])], path[1:]
    return None


def inline_local_calls(fx, e, keep, depth=3, _stack=()):
    """replace calls of crate-local functions for which keep(name) is false by the expression of their return
    value (actual arguments substituted) and simplify; a rule phrased over the primitives in `keep` then gives
    the same verdict when code between a word and the primitives is moved into or out of helper functions"""
    if not isinstance(e, tuple):
        return e
    def r(x):
        return inline_local_calls(fx, x, keep, depth, _stack)
    e = expr_children_map(e, r)
    if e[0] == 'call' and e[1] in fx.fns and not keep(e[1]) and depth > 0 and e[1] not in _stack and '{closure' not in e[1]:
        g = fx.fns[e[1]]
        body = g.expr_of_local(0)
        body = expr_subst_args(body, list(e[2]))
        return inline_local_calls(fx, body, keep, depth - 1, _stack + (e[1],))
    return e


def norm_refs(e):
    """collapse borrow-then-deref chains: (*&x).f -> x.f ; *&x -> x  (they appear when a value is passed through a
    reference parameter; the place denoted is the same)"""
    if not isinstance(e, tuple):
        return e
    e = expr_children_map(e, norm_refs)
    if e[0] == 'proj':
        base, path = e[1], tuple(e[2])
        while isinstance(base, tuple) and base[0] == 'proj':
            base, path = base[1], tuple(base[2]) + path
        while path and path[0] == '*' and isinstance(base, tuple) and base[0] == 'ref':
            base, path = base[2], path[1:]
            while isinstance(base, tuple) and base[0] == 'proj':
                base, path = base[1], tuple(base[2]) + path
        return ('proj', base, path) if path else base
    return e

def norm_arith(e):
    """`(a +checked b).0` and `a + b` are the same value: builds with and without overflow checks then give one text"""
    if not isinstance(e, tuple):
        return e
    e = expr_children_map(e, norm_arith)
    if e[0] == 'proj' and tuple(e[2]) == ('0',) and isinstance(e[1], tuple) and e[1][0] == 'bin' and e[1][1].endswith('WithOverflow'):
        return ('bin', e[1][1][:-len('WithOverflow')], e[1][2], e[1][3])
    if e[0] == 'bin' and e[1].endswith('Unchecked'):
        return ('bin', e[1][:-len('Unchecked')], e[2], e[3])
    return e

def expr_calls(e):
    return [x for x in expr_walk(e) if isinstance(x, tuple) and x[0] == 'call']


def expr_mentions_call(e, pred):
    for x in expr_walk(e):
        if isinstance(x, tuple) and x[0] == 'call' and pred(x[1]):
            return True
    return False


def expr_str(e, depth=0):
    if not isinstance(e, tuple):
        return str(e)
    if depth > 6:
        return '…'
    tag = e[0]
    if tag == 'const':
        return const_str(e[1])
    if tag == 'arg':
        return 'arg%d' % e[1]
    if tag == 'proj':
        s = expr_str(e[1], depth + 1)
        for p in e[2]:
            if p == '*':
                s = '(*%s)' % s
            elif p.startswith('as '):
                s = '(%s %s)' % (s, p)
            elif p.startswith('['):
                s += p
            else:
                s += '.' + p
        return s
    if tag == 'ref':
        return ('&mut ' if e[1] else '&') + expr_str(e[2], depth + 1)
    if tag == 'bin':
        return '%s(%s, %s)' % (e[1], expr_str(e[2], depth + 1), expr_str(e[3], depth + 1))
    if tag == 'un':
        return '%s(%s)' % (e[1], expr_str(e[2], depth + 1))
    if tag == 'cast':
        return 'cast(%s)' % expr_str(e[2], depth + 1)
    if tag == 'discr':
        return 'discr(%s)' % expr_str(e[1], depth + 1)
    if tag == 'agg':
        return '%s::%s{%s}' % (e[1], e[2], ', '.join(expr_str(x, depth + 1) for x in e[3]))
    if tag == 'closure':
        return 'closure %s' % e[1]
    if tag == 'call':
        return '%s(%s)' % (short(e[1]), ', '.join(expr_str(x, depth + 1) for x in e[2]))
    if tag == 'icall':
        return 'icall[%s](%s)' % (expr_str(e[1], depth + 1), ', '.join(expr_str(x, depth + 1) for x in e[2]))
    if tag == 'phi':
        return 'phi(%s)' % ' | '.join(expr_str(x, depth + 1) for x in e[1])
    return '%s' % (e,)


def short(path):
    """shorten a def path for messages"""
    for a, b in (('core::ops::try_trait::', ''), ('core::ops::deref::', ''), ('core::ops::index::', ''),
                 ('core::iter::traits::iterator::', ''), ('core::iter::traits::collect::', ''),
                 ('alloc::vec::', ''), ('alloc::string::', ''), ('alloc::rc::', ''), ('core::option::', ''),
                 ('core::result::', ''), ('core::slice::', 'slice::'), ('core::', ''), ('alloc::', ''), ('std::', '')):
        path = path.replace(a, b)
    return path


def strip_wrappers(e, through=()):
    """peel refs, derefs, casts, Deref::deref, Try::branch Continue payloads,
    Option/Result unwrap-like calls listed in `through`"""
    while isinstance(e, tuple):
        tag = e[0]
        if tag == 'ref':
            e = e[2]
        elif tag == 'cast':
            e = e[2]
        elif tag == 'proj' and all(p == '*' for p in e[2]):
            e = e[1]
        elif tag == 'call' and (e[1] in DEREF_LIKE or e[1] in through) and e[2]:
            e = e[2][0]
        else:
            break
    return e


DEREF_LIKE = {
    'core::ops::deref::Deref::deref', 'core::ops::deref::DerefMut::deref_mut',
    '<alloc::vec::Vec<T, A> as core::ops::deref::Deref>::deref',
    '<alloc::vec::Vec<T, A> as core::ops::deref::DerefMut>::deref_mut',
    '<alloc::rc::Rc<T, A> as core::ops::deref::Deref>::deref',
    '<alloc::boxed::Box<T, A> as core::ops::deref::Deref>::deref',
    "<alloc::borrow::Cow<'_, B> as core::ops::deref::Deref>::deref",
    '<arcstr::arc_str::ArcStr as core::ops::deref::Deref>::deref',
    '<arcstr::substr::Substr as core::ops::deref::Deref>::deref',
    '<alloc::string::String as core::ops::deref::Deref>::deref',
    "<core::cell::RefMut<'_, T> as core::ops::deref::Deref>::deref",
    "<core::cell::RefMut<'_, T> as core::ops::deref::DerefMut>::deref_mut",
    "<core::cell::Ref<'_, T> as core::ops::deref::Deref>::deref",
    '<alloc::rc::Rc<T, A> as core::convert::AsRef<T>>::as_ref',
    'core::convert::AsRef::as_ref',
}

TRY_BRANCH = {'<core::result::Result<T, E> as core::ops::try_trait::Try>::branch',
              '<core::option::Option<T> as core::ops::try_trait::Try>::branch',
              'core::ops::try_trait::Try::branch'}
FROM_RESIDUAL = {
    '<core::result::Result<T, F> as core::ops::try_trait::FromResidual<core::result::Result<core::convert::Infallible, E>>>::from_residual',
    '<core::option::Option<T> as core::ops::try_trait::FromResidual<core::option::Option<core::convert::Infallible>>>::from_residual',
    'core::ops::try_trait::FromResidual::from_residual',
}


def unwrap_value(e):
    """look through `?` (Try::branch + Continue payload), Option/Result unwrap,
    ok_or_else, clone, deref to the producing expression"""
    THROUGH = TRY_BRANCH | UNWRAP_LIKE | CLONE_LIKE
    changed = True
    while changed and isinstance(e, tuple):
        changed = False
        tag = e[0]
        if tag in ('ref', 'cast'):
            e = e[2]
            changed = True
        elif tag == 'proj':
            # (x as Continue).0 ; (x as Some).0 ; derefs
            ps = [p for p in e[2] if p != '*' and not p.startswith('as ') and p != '0']
            if not ps:
                e = e[1]
                changed = True
        elif tag == 'call' and e[2] and (e[1] in THROUGH or e[1] in DEREF_LIKE):
            e = e[2][0]
            changed = True
    return e


UNWRAP_LIKE = {
    'core::option::Option::<T>::unwrap', 'core::option::Option::<T>::expect',
    'core::result::Result::<T, E>::unwrap', 'core::result::Result::<T, E>::expect',
    'core::option::Option::<T>::ok_or_else', 'core::option::Option::<T>::ok_or',
    'core::option::Option::<T>::unwrap_or_else', 'core::option::Option::<T>::unwrap_or',
    'core::option::Option::<T>::unwrap_or_default',
    'core::result::Result::<T, E>::ok', 'core::result::Result::<T, E>::map_err',
    'core::option::Option::<&T>::cloned', 'core::option::Option::<&T>::copied',
}
CLONE_LIKE = {
    'core::clone::Clone::clone', '<cell::Cell as core::clone::Clone>::clone',
}


# ----------------------------------------------------------------- facts set
class Facts:
    def __init__(self, path, resolve_anchors=True):
        with open(path) as f:
            text = f.read()
        self.j = json.loads(text)
        self.aliases = {}
        if resolve_anchors:
            from . import anchors
            try:
                self.aliases = anchors.resolve(self.j)
            except Exception:      # a broken table must not take the analysis down: anchors then stay missing (fail closed)
                self.aliases = {}
            if self.aliases:
                self.j = json.loads(anchors.rewrite(text, self.aliases))
        self.path = path
        self.types = self.j['types']
        self.fns = {n: Fn(n, j, self.types) for n, j in self.j['fns'].items()}
        self.consts = {n: Fn(n, j, self.types) for n, j in (self.j.get('consts') or {}).items()}   # initialisers of named constants
        self.adts = self.j['adts']
        ADTS.update(self.adts)        # field-less enums: pathq reads `match` on them as the `==` tests they stand for
        self.overflow_checks = self.j['overflow_checks']
        self.tag = self.j.get('tag', '')
        self._callers = None
        self._registry = None
        self._callgraph = None

    def fn(self, name):
        return self.fns.get(name)

    def const_value(self, cpath):
        """expression of a named constant's initialiser, or None"""
        c = self.consts.get(cpath)
        return c.expr_of_local(0) if c is not None else None

    def need(self, name):
        f = self.fns.get(name)
        if f is None:
            raise MissingAnchor('function %s not found in facts' % name)
        return f

    # -- call graph (direct edges)
    def callgraph(self):
        if self._callgraph is not None:
            return self._callgraph
        g = {}
        for n, f in self.fns.items():
            out = set()
            for bb, t in f.calls():
                c = callee_of(t)
                if c is not None:
                    out.add(c)
                # closures / fn items passed as arguments are potential callees
                for a in t['args']:
                    c2 = a.get('c')
                    if c2:
                        if 'closure' in c2:
                            out.add(c2['closure'])
                        elif 'fn' in c2:
                            out.add(c2.get('rfn') or c2['fn'])
            # closures constructed / fn pointers reified in statements
            for bb in f.reachable_blocks():
                for st in f.blocks[bb]['stmts']:
                    if st['k'] != 'assign':
                        continue
                    rv = st['rv']
                    if rv['k'] == 'agg' and rv['ak'] == 'closure':
                        out.add(rv['closure'])
                    elif rv['k'] == 'cast' and 'c' in rv['o'] and ('fn' in rv['o']['c'] or 'closure' in rv['o']['c']):
                        c2 = rv['o']['c']
                        out.add(c2.get('rfn') or c2.get('fn') or c2.get('closure'))
                    elif rv['k'] == 'use' and 'c' in rv['o'] and 'fn' in rv['o']['c']:
                        c2 = rv['o']['c']
                        out.add(c2.get('rfn') or c2['fn'])
            g[n] = out
        self._callgraph = g
        return g

    def callers(self):
        if self._callers is None:
            cs = defaultdict(set)
            for n, outs in self.callgraph().items():
                for o in outs:
                    cs[o].add(n)
            self._callers = cs
        return self._callers

    def reachable_from(self, roots, extra_edges=None, stop=()):
        g = self.callgraph()
        seen = set()
        dq = deque(r for r in roots)
        while dq:
            n = dq.popleft()
            if n in seen or n in stop:
                continue
            seen.add(n)
            for o in g.get(n, ()):  # only local fns have entries
                if o not in seen:
                    dq.append(o)
            if extra_edges:
                for o in extra_edges.get(n, ()):
                    if o not in seen:
                        dq.append(o)
        return seen

    def call_path(self, roots, target, extra_edges=None, stop=()):
        """shortest call chain from any root to target (list of fn names)"""
        g = self.callgraph()
        prev = {}
        dq = deque()
        for r in roots:
            if r not in prev:
                prev[r] = None
                dq.append(r)
        while dq:
            n = dq.popleft()
            if n == target:
                out = []
                while n is not None:
                    out.append(n)
                    n = prev[n]
                return list(reversed(out))
            if n in stop:
                continue
            outs = set(g.get(n, ()))
            if extra_edges:
                outs |= set(extra_edges.get(n, ()))
            for o in outs:
                if o not in prev:
                    prev[o] = n
                    dq.append(o)
        return None

    # -- word registry
    def registry(self):
        if self._registry is None:
            self._registry = build_registry(self)
        return self._registry


class MissingAnchor(Exception):
    pass


REGISTER_FNS = {
    'state::State::defword': False,
    'state::State::def_immediate': True,
}


def _fn_target(f, operand):
    """resolve a fn-pointer operand to a def path (fn item or closure)"""
    e = f.expr_of_operand(operand)
    for x in expr_walk(e):
        if isinstance(x, tuple):
            if x[0] == 'const' and ('fn' in x[1] or 'closure' in x[1]):
                c = x[1]
                return c.get('rfn') or c.get('fn') or c.get('closure')
            if x[0] == 'closure':
                return x[1]
    return None


def _str_const(f, operand):
    e = f.expr_of_operand(operand)
    for x in expr_walk(e):
        if isinstance(x, tuple) and x[0] == 'const' and 'str' in x[1]:
            return x[1]['str']
    return None


def build_registry(facts):
    """list of dicts: name, target, immediate, registered_in, at"""
    words = []
    natives = []  # code_emit_call_native targets
    for n, f in facts.fns.items():
        for bb, t in f.calls():
            c = callee_of(t)
            if c in REGISTER_FNS:
                name = _str_const(f, t['args'][1])
                target = _fn_target(f, t['args'][2])
                words.append({'name': name, 'target': target, 'immediate': REGISTER_FNS[c],
                              'in': n, 'at': t.get('at'), 'bb': bb})
            elif c == 'state::State::dict_add_word' and n not in ('state::State::defword', 'state::State::def_immediate'):
                name = _str_const(f, t['args'][1])
                target = _fn_target(f, t['args'][2])
                words.append({'name': name, 'target': target, 'immediate': None,
                              'in': n, 'at': t.get('at'), 'bb': bb})
            elif c == 'state::State::code_emit_call_native':
                target = _fn_target(f, t['args'][1])
                natives.append({'target': target, 'in': n, 'at': t.get('at'), 'bb': bb})
            elif c == 'state::State::defwordself':
                name = _str_const(f, t['args'][1])
                target = _fn_target(f, t['args'][2])
                words.append({'name': name, 'target': target, 'immediate': False,
                              'in': n, 'at': t.get('at'), 'bb': bb, 'self': True})
    return {'words': words, 'natives': natives}


def runtime_targets(facts):
    """functions the VM can call through XfnPtr at run time (non-immediate
    registry entries + code_emit_call_native targets); see A-LATE in DESIGN"""
    r = facts.registry()
    out = set()
    for w in r['words']:
        if w['target'] and not w['immediate']:
            out.add(w['target'])
    for n in r['natives']:
        if n['target']:
            out.add(n['target'])
    return out


def immediate_targets(facts):
    r = facts.registry()
    return {w['target'] for w in r['words'] if w['target'] and w['immediate']}


# -------------------------------------------------------------- path search
def find_path(f, start, is_target, is_blocker=None, start_idx=0, include_start_events=True):
    """Search for a path over normal edges from block `start` (from event index
    start_idx) to an event satisfying is_target(bb, i, ev), never passing an
    event satisfying is_blocker(bb, i, ev).  Returns list of blocks (witness)
    or None.  Events in a block are scanned in order; a blocker before the
    target in the same block blocks it."""
    prev = {}
    dq = deque()
    dq.append((start, start_idx))
    prev[start] = None
    first = True
    visited_full = set()
    while dq:
        bb, idx = dq.popleft()
        if idx == 0:
            if bb in visited_full:
                continue
            visited_full.add(bb)
        evs = f.events(bb)
        blocked = False
        for i in range(idx, len(evs)):
            ev = evs[i]
            if is_target(bb, i, ev):
                path = []
                n = bb
                while n is not None:
                    path.append(n)
                    n = prev.get(n)
                return list(reversed(path))
            if is_blocker is not None and is_blocker(bb, i, ev):
                blocked = True
                break
        if blocked:
            continue
        for t in f.succ(bb):
            if t not in prev or (t == start and start_idx > 0 and t not in visited_full):
                if t not in prev:
                    prev[t] = bb
                dq.append((t, 0))
    return None


def blocks_between(f, src, dst_set):
    """set of blocks on some path from src to any block in dst_set"""
    fwd = set()
    dq = deque([src])
    while dq:
        b = dq.popleft()
        if b in fwd:
            continue
        fwd.add(b)
        for t in f.succ(b):
            dq.append(t)
    bwd = set()
    dq = deque(dst_set)
    while dq:
        b = dq.popleft()
        if b in bwd:
            continue
        bwd.add(b)
        for p in f.pred(b):
            dq.append(p)
    return fwd & bwd


# ------------------------------------------------ classification of returns
def return_defs(f, follow=False):
    """classify every whole assignment to _0 of a Result-returning fn:
    list of (bb, idx, cls, detail) with cls in ok / err / forward / other.
    With follow=True, `_0 = move _k` (a result kept in a local, or the return value of a spliced helper) is
    followed to the definitions of _k, so the classification names the construct that produced the value
    (path-insensitively: use only where every definition of _k can reach the return)."""
    out = []

    def classify(local, depth, seen):
        for (bb, i, kind, payload) in f.defs().get(local, []):
            if kind == 'call':
                c = callee_of(payload)
                if c in FROM_RESIDUAL:
                    out.append((bb, i, 'err', 'from_residual'))
                else:
                    out.append((bb, i, 'forward', c or 'indirect'))
            else:
                rv = payload
                if rv['k'] == 'agg' and rv.get('adt') == 'core::result::Result':
                    out.append((bb, i, 'ok' if rv['variant'] == 'Ok' else 'err', rv['variant']))
                elif rv['k'] == 'agg' and rv.get('adt') == 'core::option::Option':
                    out.append((bb, i, 'ok' if rv['variant'] == 'Some' else 'err', rv['variant']))
                elif rv['k'] == 'use' and 'c' in rv['o'] and rv['o']['c'].get('cpath') == 'error::OK':
                    out.append((bb, i, 'ok', 'OK'))
                elif rv['k'] == 'use' and 'c' in rv['o'] and 'error::OK' in rv['o']['c'].get('txt', ''):
                    out.append((bb, i, 'ok', 'OK'))
                elif rv['k'] == 'use':
                    p = op_place(rv['o'])
                    if follow and p is not None and not p['p'] and p['l'] > f.argc and p['l'] not in seen and depth < 6 and f.defs().get(p['l']):
                        classify(p['l'], depth + 1, seen | {p['l']})
                    else:
                        out.append((bb, i, 'forward', op_str(rv['o'])))
                else:
                    out.append((bb, i, 'other', rv['k']))
    classify(0, 0, {0})
    return out


def cond_edges(f, bb):
    """For a switch terminator whose discriminant is a bool computed in this
    block or earlier, return (expr, {label: target})"""
    t = f.blocks[bb]['term']
    if t['k'] != 'switch':
        return None
    e = f.expr_of_operand(t['discr'])
    edges = {}
    for v, b in t['targets']:
        edges[v] = b
    edges['otherwise'] = t['otherwise']
    return e, edges


def control_dependents(f, bb, edge_target):
    """blocks that execute only if edge bb->edge_target is taken: blocks
    dominated by edge_target when edge_target's only pred is bb, otherwise
    approximated by blocks reachable from edge_target and not reachable from the
    other successors without passing edge_target... we use the conservative
    dominance form."""
    if len(f.pred(edge_target)) != 1:
        return set()
    dom = f.dominators()
    return {b for b, d in dom.items() if d is not None and edge_target in d}
