"""D-ZONE: a small difference-bound domain over MIR expression atoms (DESIGN §3 C08).

Values are linearised to  sum(coef*atom) + const  where atoms are canonical
strings of non-arithmetic sub-expressions.  Facts come from dominating branch
conditions and from defining statements (x = min(y, z), x = y % c, ...).  A
query asks whether  lin(a) - lin(b) >= c  (or an upper bound) follows; it is
answered with Bellman-Ford over constraints of the forms x - y >= c, x >= c,
x <= c.  Everything that does not fit these forms is ignored (never assumed)."""
from .core import expr_str, unwrap_value, const_str, norm_refs

INF = float('inf')
UNSIGNED = ('usize', 'u8', 'u16', 'u32', 'u64', 'u128')
BITS = {'u8': 8, 'i8': 8, 'u16': 16, 'i16': 16, 'u32': 32, 'i32': 32, 'u64': 64, 'i64': 64, 'usize': 64, 'isize': 64, 'u128': 128, 'i128': 128}


def strip(e):
    """look through `(x as Continue).0`-style unwraps, refs, derefs, lossless casts and AddWithOverflow .0"""
    changed = True
    while changed and isinstance(e, tuple):
        changed = False
        if e[0] in ('ref',):
            e = e[2]
            changed = True
        elif e[0] == 'proj':
            ps = e[2]
            if all(p == '*' for p in ps):
                e = e[1]
                changed = True
            elif ps == ('0',) and isinstance(e[1], tuple) and e[1][0] == 'bin' and e[1][1].endswith('WithOverflow'):
                e = ('bin', e[1][1][:-len('WithOverflow')], e[1][2], e[1][3])
                changed = True
        elif e[0] == 'call' and e[1].endswith('::clone') and e[2]:
            e = e[2][0]
            changed = True
    return e


def lin(e, depth=0):
    """(coeffs: {atom: int}, const) or None if not linear"""
    e = strip(e)
    if depth > 12 or not isinstance(e, tuple):
        return None
    tag = e[0]
    if tag == 'const':
        c = e[1]
        if 'v' in c and c['v'] != -1:
            v = c['v']
            if isinstance(v, str):
                try:
                    v = int(v)
                except ValueError:
                    return ({atom(e): 1}, 0)
            return ({}, v)
        if 'us' in c:
            return ({}, int(c['us']))
        return ({atom(e): 1}, 0)
    if tag == 'bin':
        op = e[1]
        a, b = lin(e[2], depth + 1), lin(e[3], depth + 1)
        if op in ('Add', 'AddUnchecked') and a and b:
            return (_addc(a[0], b[0], 1), a[1] + b[1])
        if op in ('Sub', 'SubUnchecked') and a and b:
            return (_addc(a[0], b[0], -1), a[1] - b[1])
        if op in ('Mul', 'MulUnchecked') and a and b:
            if not a[0]:
                return ({k: v * a[1] for k, v in b[0].items()}, a[1] * b[1])
            if not b[0]:
                return ({k: v * b[1] for k, v in a[0].items()}, a[1] * b[1])
        return ({atom(e): 1}, 0)
    if tag == 'cast':
        # widening / same-width casts keep the value for the non-negative quantities we reason about
        return lin(e[2], depth + 1)
    if tag == 'phi':
        return ({atom(e): 1}, 0)
    return ({atom(e): 1}, 0)


def _addc(a, b, sign):
    out = dict(a)
    for k, v in b.items():
        out[k] = out.get(k, 0) + sign * v
        if out[k] == 0:
            del out[k]
    return out


def atom(e):
    # `(*&mut x).f` and `x.f` are one quantity (values passed through reference parameters of spliced helpers)
    return expr_str(strip(norm_refs(e)), -30)


class Zone:
    """constraints x - y >= c over atoms; node '0' is the constant zero"""

    def __init__(self):
        self.edges = {}   # (x, y) -> best c with x - y >= c
        self.nodes = {'0'}

    def add(self, x, y, c):
        self.nodes.add(x)
        self.nodes.add(y)
        k = (x, y)
        if k not in self.edges or self.edges[k] < c:
            self.edges[k] = c

    def nonneg(self, x):
        self.add(x, '0', 0)

    def add_lin_ge(self, la, lb, c=0):
        """record lin(a) - lin(b) >= c if it has difference form"""
        if la is None or lb is None:
            return False
        co = _addc(la[0], lb[0], -1)
        k = la[1] - lb[1]
        # sum co*atoms + k >= c
        items = [(a, v) for a, v in co.items() if v != 0]
        if len(items) == 0:
            return False
        if len(items) == 1:
            a, v = items[0]
            if v == 1:
                self.add(a, '0', c - k)
                return True
            if v == -1:
                self.add('0', a, c - k)
                return True
            return False
        if len(items) == 2:
            (a, va), (b, vb) = items
            if va == 1 and vb == -1:
                self.add(a, b, c - k)
                return True
            if va == -1 and vb == 1:
                self.add(b, a, c - k)
                return True
        return False

    def lower(self, x, y):
        """best provable c with x - y >= c (longest path y -> x in the constraint graph)"""
        # edges (x,y,c): x >= y + c  => path from y to x with weight c; maximise
        dist = {n: -INF for n in self.nodes}
        if y not in dist:
            return -INF
        dist[y] = 0
        for _ in range(len(self.nodes) + 1):
            ch = False
            for (a, b), c in self.edges.items():
                if dist[b] > -INF and dist[b] + c > dist[a]:
                    dist[a] = dist[b] + c
                    ch = True
            if not ch:
                break
        return dist.get(x, -INF)

    def prove_lin_ge(self, la, lb, c=0):
        if la is None or lb is None:
            return False
        co = _addc(la[0], lb[0], -1)
        k = la[1] - lb[1]
        items = [(a, v) for a, v in co.items() if v != 0]
        if not items:
            return k >= c
        if len(items) == 1:
            a, v = items[0]
            self.nodes.add(a)
            if v == 1:
                return self.lower(a, '0') + k >= c
            if v == -1:
                return self.lower('0', a) + k >= c
            if v > 1:
                return v * max(self.lower(a, '0'), 0) + k >= c if self.lower(a, '0') > -INF else False
            return False
        if len(items) == 2:
            (a, va), (b, vb) = items
            self.nodes.add(a)
            self.nodes.add(b)
            if va == 1 and vb == -1:
                return self.lower(a, b) + k >= c
            if va == -1 and vb == 1:
                return self.lower(b, a) + k >= c
        # all-positive combination of non-negative atoms
        if all(v > 0 for _, v in items):
            return k >= c
        return False

    def upper(self, la):
        """best provable upper bound of a linear expression (or INF)"""
        if la is None:
            return INF
        total = la[1]
        for a, v in la[0].items():
            self.nodes.add(a)
            if v > 0:
                lo = self.lower('0', a)    # 0 - a >= lo  => a <= -lo
                if lo == -INF:
                    return INF
                total += v * (-lo)
            else:
                lo = self.lower(a, '0')
                if lo == -INF:
                    return INF
                total += v * lo
        return total
