"""self-test over the seeded corpus (/verif/seeded): apply each patch of a property to a scratch copy of /repo
and run that property's quick check against it.  Informative only (results go into the evidence of thorough
runs and into seeded/REPORT.md); patches written against an older tree may no longer apply."""
import glob
import json
import os
import shutil
import subprocess
import tempfile
from concurrent.futures import ThreadPoolExecutor

VERIF = os.path.dirname(os.path.abspath(__file__))


def _one(args):
    d, pid, worker = args
    name = os.path.basename(d)
    meta = json.load(open(os.path.join(d, 'meta.json')))
    tmp = tempfile.mkdtemp(prefix='xeh-seed-')
    repo = os.path.join(tmp, 'repo')
    try:
        subprocess.check_call(['rsync', '-a', '--exclude', 'target', '--exclude', '.git', '/repo/', repo + '/'])
        r = subprocess.run(['patch', '-p1', '-s', '-f', '-d', repo, '-i', os.path.join(d, 'patch.diff')], stdout=subprocess.PIPE, stderr=subprocess.STDOUT)
        if r.returncode != 0:
            return {'seed': name, 'status': 'patch-does-not-apply', 'negative': meta.get('property') == 'all'}
        env = dict(os.environ, XEH_REPO=repo, XEH_SCRATCH='1', XEH_TGT_SUFFIX='-w%d' % worker)
        p = subprocess.run([os.path.join(VERIF, 'check'), pid, '--tier', 'quick'], env=env, stdout=subprocess.PIPE, stderr=subprocess.STDOUT, text=True)
        keys = [l.strip()[4:] for l in p.stdout.splitlines() if l.strip().startswith('key=')]
        rules = sorted({k.split(':')[0] for k in keys})
        return {'seed': name, 'status': 'detected' if p.returncode == 1 else ('silent' if p.returncode == 0 else 'check-error'),
                'rules': rules, 'keys': keys[:4],
                # silent is expected for a documented miss, and for a seed of this property that another property's check catches
                'expected_missed': bool(meta.get('missed')) or (bool(meta.get('detected_by')) and not any(x.startswith(pid) for x in meta['detected_by'])),
                'negative': meta.get('property') == 'all', 'residual': meta.get('residual_alarm_in', [])}
    finally:
        shutil.rmtree(tmp, ignore_errors=True)
        import hashlib
        tag = hashlib.sha1(os.path.abspath(repo).encode()).hexdigest()[:8]
        for dd in glob.glob(os.path.join(VERIF, 'out', 'facts', '*-' + tag)):
            shutil.rmtree(dd, ignore_errors=True)


def run_corpus(pid, workers=6):
    seeds = []
    for d in sorted(glob.glob(os.path.join(VERIF, 'seeded', '*'))):
        mp = os.path.join(d, 'meta.json')
        if not os.path.exists(mp) or not os.path.exists(os.path.join(d, 'patch.diff')):
            continue
        meta = json.load(open(mp))
        det = meta.get('detected_by', [])
        if meta.get('property') == pid or any(x.startswith(pid) for x in det):
            seeds.append(d)
        elif meta.get('property') == 'all':
            seeds.append(d)      # behaviour-preserving refactor: the check must stay silent
    jobs = [(d, pid, i % workers) for i, d in enumerate(seeds)]
    # workers with the same index share a target dir: run them in `workers` lanes
    lanes = {}
    for j in jobs:
        lanes.setdefault(j[2], []).append(j)
    results = []

    def lane(js):
        return [_one(j) for j in js]
    with ThreadPoolExecutor(max_workers=workers) as ex:
        for rs in ex.map(lane, lanes.values()):
            results.extend(rs)
    neg = [r for r in results if r.get('negative')]
    results = [r for r in results if not r.get('negative')]
    out = {'seeds': len(results),
           'refactors_silent': sorted(r['seed'] for r in neg if r['status'] == 'silent'),
           'refactors_FALSE_ALARM': sorted(r['seed'] for r in neg if r['status'] not in ('silent', 'patch-does-not-apply') and pid not in r.get('residual', [])),
           'refactors_residual_alarm': sorted(r['seed'] for r in neg if r['status'] not in ('silent', 'patch-does-not-apply') and pid in r.get('residual', [])),
           'refactors_stale': sorted(r['seed'] for r in neg if r['status'] == 'patch-does-not-apply'),
           'detected': sorted(r['seed'] for r in results if r['status'] == 'detected'),
           'silent_expected': sorted(r['seed'] for r in results if r['status'] == 'silent' and r.get('expected_missed')),
           'silent_unexpected': sorted(r['seed'] for r in results if r['status'] == 'silent' and not r.get('expected_missed')),
           'not_applicable': sorted(r['seed'] for r in results if r['status'] == 'patch-does-not-apply'),
           'errors': sorted(r['seed'] for r in results if r['status'] == 'check-error'),
           'by_seed': {r['seed']: r.get('rules', []) for r in results}}
    return out


if __name__ == '__main__':
    import sys
    pids = sys.argv[1:] or ['C%02d' % i for i in range(1, 19) if i != 5]
    rep = {}
    for pid in pids:
        rep[pid] = run_corpus(pid)
        r = rep[pid]
        print('%s: %d seeds, %d detected, %d silent(expected), %d SILENT-UNEXPECTED %s, %d n/a %s; refactors silent %d, documented residual alarms %s, FALSE ALARMS %s' % (
            pid, r['seeds'], len(r['detected']), len(r['silent_expected']), len(r['silent_unexpected']), r['silent_unexpected'],
            len(r['not_applicable']), r['not_applicable'], len(r['refactors_silent']), r.get('refactors_residual_alarm', []), r['refactors_FALSE_ALARM']))
    json.dump(rep, open(os.path.join(VERIF, 'seeded', 'REPORT.json'), 'w'), indent=1)
